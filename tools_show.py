#!/usr/bin/env python3
import json,sys
f=json.load(open(sys.argv[1])); n=int(sys.argv[2]) if len(sys.argv)>2 else 60
print(f['class_key']); print(f['config']); print('params',f['spec'].get('params'),'tape',f['spec'].get('tape'))
print(f['message'][:1500]); print('\n'.join(f['trace'][-n:]))
