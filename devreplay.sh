#!/bin/bash
# dev: replay a file with the dev worker and print the full trace (optionally filtered by task id)
f=$(realpath $1); task=$2
cat > ${DEVDIR:-/var/tmp/dev}/rjob.json <<EOJ
{"property":"$(python3 -c "import json;print(json.load(open('$f'))['property'])")","mode":"replay","replay_file":"$f","out":"${DEVDIR:-/var/tmp/dev}/rout.json","trace_lines":1000000}
EOJ
VERIF_JOB=${DEVDIR:-/var/tmp/dev}/rjob.json GOMAXPROCS=1 ${DEVDIR:-/var/tmp/dev}/worker-${PROFILE:-client}.test -test.run TestWorker -test.timeout 0 >/dev/null 2>&1
python3 - <<EOP
import json
import os; o=json.load(open(os.environ.get('DEVDIR','/var/tmp/dev')+'/rout.json'))
print(o['counters'], o['violation_counts'])
for l in o['samples'][0]['trace']:
    if not "$task" or (" $task " in l) or 'VIOLATION' in l or 'FAULT' in l or len(l.split())<4 or not l.split()[2].startswith('r.'):
        print(l[:170])
EOP
