package sim

import (
	"bufio"
	"bytes"
	"context"
	"errors"
	"fmt"
	"io"
	"math/big"
	"net"
	"runtime"
	"sync"
	"sync/atomic"
	"time"

	"github.com/datastax/go-cassandra-native-protocol/client"
	"github.com/datastax/go-cassandra-native-protocol/compression/lz4"
	"github.com/datastax/go-cassandra-native-protocol/compression/snappy"
	"github.com/datastax/go-cassandra-native-protocol/datacodec"
	"github.com/datastax/go-cassandra-native-protocol/datatype"
	"github.com/datastax/go-cassandra-native-protocol/frame"
	"github.com/datastax/go-cassandra-native-protocol/message"
	"github.com/datastax/go-cassandra-native-protocol/primitive"
	"github.com/datastax/go-cassandra-native-protocol/segment"
	xsnappy "github.com/golang/snappy"
	"verif/simrt"
)

// C04 — decoders never panic, fault or hang (DESIGN.md §5 C04): the FAULT clause only.
//
//   "reader": valid encodings produced by the library itself are altered the way a faulty transport
//   or a flipped stored byte alters them (bit flips, every length/count position overwritten with
//   -1, -2, 0, boundary and huge values, truncation at every offset, duplicated and removed ranges,
//   garbage) and served to every decoding entry point through a reader that also short-reads and
//   fails at an offset. For small encodings the alteration space is enumerated, not sampled.
//   "live": the same alterations arrive at live connections from a hostile raw peer; a panic there
//   kills a goroutine of a running system, a hang is seen by the scheduler at quiescence.
//
// Oracle: no panic, and every call returns (a decoded value or an error).

func init() {
	Register(&Scenario{Name: "one", Property: "C04", Body: c04One, NoBubble: true})
	Register(&Scenario{Name: "live", Property: "C04", Body: c04Live})
	props["C04"] = &propDef{Case: c04Case}
}

// ---------- faulty reader ----------

type faultReader struct {
	data  []byte
	off   int
	chunk int // max bytes per Read (0: unlimited)
	errAt int // Read fails once this many bytes were served (-1: never)
}

var errFaultyRead = errors.New("injected read error")

func (f *faultReader) Read(p []byte) (int, error) {
	if f.errAt >= 0 && f.off >= f.errAt {
		return 0, errFaultyRead
	}
	if f.off >= len(f.data) {
		return 0, io.EOF
	}
	n := len(p)
	if f.chunk > 0 && n > f.chunk {
		n = f.chunk
	}
	if n > len(f.data)-f.off {
		n = len(f.data) - f.off
	}
	if f.errAt >= 0 && f.off+n > f.errAt {
		n = f.errAt - f.off
	}
	copy(p, f.data[f.off:f.off+n])
	f.off += n
	return n, nil
}

// ---------- targets: (entry point, valid encoding) ----------

type c04Target struct {
	name   string
	valid  []byte
	decode func(b []byte, chunk, errAt int)
	snappy bool // the encoding embeds a Snappy block: pre-screen its declared length (vendored code, no guard)
}

// snappyHuge reports whether an (altered) buffer contains a Snappy block header declaring more than the
// allocation limit. The vendored snappy package allocates the declared size (up to 4 GiB) up front and is
// outside the instrumenter's allocation guard, so such inputs are skipped and counted, like guarded ones.
func snappyHuge(b []byte, bodyOffset int) bool {
	if bodyOffset > len(b) {
		return false
	}
	n, err := xsnappy.DecodedLen(b[bodyOffset:])
	return err == nil && int64(n) > simrt.AllocLimit
}

// rd serves the bytes through the kind of source the caller might hold: the faulty reader (chunk >= 0),
// or — because decoders may special-case concrete reader types — a *bytes.Buffer (-1), a *bytes.Reader
// (-2) or a bufio.Reader (-3) over the very same bytes.
func rd(b []byte, chunk, errAt int) io.Reader {
	switch chunk {
	case -1:
		return bytes.NewBuffer(append([]byte(nil), b...))
	case -2:
		return bytes.NewReader(b)
	case -3:
		return bufio.NewReaderSize(&faultReader{data: b, chunk: 5, errAt: errAt}, 16)
	}
	return &faultReader{data: b, chunk: chunk, errAt: errAt}
}

var c04Compressions = []primitive.Compression{primitive.CompressionNone, primitive.CompressionLz4, primitive.CompressionSnappy}

// c04Targets derives a deterministic batch of targets from the tape.
func c04Targets(T *Tape) []c04Target {
	var ts []c04Target
	v := allVersions[T.Draw("version", len(allVersions))]
	comp := c04Compressions[T.Draw("comp", 3)]
	if !v.SupportsCompression(comp) {
		comp = primitive.CompressionNone
	}
	codec := frameCodecFor(comp)
	tag := fmt.Sprintf("/%v/%s", v, comp)
	// 1. frames through every frame-level entry point, and their bodies through the message codecs
	for k := 0; k < 3; k++ {
		f := GenFrame(T, GenOpts{Version: v, Requests: T.Bool("req", 0.5), Responses: true, MaxBytes: 400, BigChance: 0.1, Compressible: true, HeaderFlags: true}, int16(1+T.Draw("stream", 100)))
		if comp != primitive.CompressionNone && T.Bool("compressflag", 0.5) {
			markCompressed(T, f)
		}
		kind := KindOf(f.Body.Message)
		var buf bytes.Buffer
		if err := codec.EncodeFrame(f.DeepCopy(), &buf); err != nil {
			continue
		}
		wire := append([]byte(nil), buf.Bytes()...)
		first := len(ts)
		defer func(first int) {
			if comp == primitive.CompressionSnappy {
				for i := first; i < len(ts) && i < first+4; i++ {
					ts[i].snappy = true
				}
			}
		}(first)
		ts = append(ts,
			c04Target{name: "DecodeFrame" + tag + "/" + kind, valid: wire, decode: func(b []byte, c, e int) { _, _ = codec.DecodeFrame(rd(b, c, e)) }},
			c04Target{name: "DecodeRawFrame+Convert" + tag + "/" + kind, valid: wire, decode: func(b []byte, c, e int) {
				if raw, err := codec.DecodeRawFrame(rd(b, c, e)); err == nil {
					_, _ = codec.ConvertFromRawFrame(raw)
				}
			}},
			c04Target{name: "DecodeHeader+DecodeRawBody/DiscardBody" + tag, valid: wire, decode: func(b []byte, c, e int) {
				src := rd(b, c, e)
				if h, err := codec.DecodeHeader(src); err == nil {
					if h.StreamId%2 == 0 {
						_, _ = codec.DecodeRawBody(h, src)
					} else {
						_ = codec.DiscardBody(h, src)
					}
				}
			}},
			c04Target{name: "DecodeHeader+DiscardBody(seekable)" + tag, valid: wire, decode: func(b []byte, c, e int) {
				src := bytes.NewReader(b)
				if h, err := codec.DecodeHeader(src); err == nil {
					_ = codec.DiscardBody(h, src)
				}
			}},
		)
		var body bytes.Buffer
		mc := c03MsgCodecs[f.Body.Message.GetOpCode()]
		if mc != nil && mc.Encode(f.Body.Message, &body, v) == nil {
			ts = append(ts, c04Target{name: "message.Decode/" + kind + fmt.Sprintf("/%v", v), valid: append([]byte(nil), body.Bytes()...), decode: func(b []byte, c, e int) { _, _ = mc.Decode(rd(b, c, e), v) }})
		}
		// column types of RESULT metadata through ReadDataType
		var cols []*message.ColumnMetadata
		switch m := f.Body.Message.(type) {
		case *message.RowsResult:
			if m.Metadata != nil {
				cols = m.Metadata.Columns
			}
		case *message.PreparedResult:
			if m.VariablesMetadata != nil {
				cols = m.VariablesMetadata.Columns
			}
		}
		for i, col := range cols {
			if i >= 2 || col == nil || col.Type == nil {
				break
			}
			var db bytes.Buffer
			if datatype.WriteDataType(col.Type, &db, v) == nil {
				ts = append(ts, c04Target{name: fmt.Sprintf("ReadDataType/%v", v), valid: append([]byte(nil), db.Bytes()...), decode: func(b []byte, c, e int) { _, _ = datatype.ReadDataType(rd(b, c, e), v) }})
			}
		}
	}
	// a nested data type generated on purpose
	{
		dt := newGen(T, GenOpts{Version: v}).dtype("c04.dtype", 0)
		var db bytes.Buffer
		if dt != nil && datatype.WriteDataType(dt, &db, v) == nil {
			ts = append(ts, c04Target{name: fmt.Sprintf("ReadDataType/%v", v), valid: append([]byte(nil), db.Bytes()...), decode: func(b []byte, c, e int) { _, _ = datatype.ReadDataType(rd(b, c, e), v) }})
		}
	}
	// 2. segments
	for _, lz := range []bool{false, true} {
		payload := c07Payload(T.Draw("segkind", 3), T.DrawGeo("segsize", 600), uint64(T.Draw("segseed", 1000)))
		seg, err := c07Encode(lz, payload, T.Bool("self", 0.5))
		if err != nil {
			continue
		}
		sc := c07Codec(lz)
		ts = append(ts, c04Target{name: fmt.Sprintf("DecodeSegment/lz4=%v", lz), valid: seg.wire, decode: func(b []byte, c, e int) { _, _ = sc.DecodeSegment(rd(b, c, e)) }})
	}
	// 2b. segments whose checksums are VALID whatever the alteration: the target's bytes are a descriptor
	// (declared uncompressed length, self-contained flag, payload as transmitted) from which the segment
	// is built with the reference CRCs, so that alterations reach the code behind the checksum stage
	// (length bookkeeping, decompression) instead of dying at the CRC comparison.
	for _, lz := range []bool{false, true} {
		lz := lz
		payload := c07Payload(T.Draw("hsegkind", 3), T.DrawGeo("hsegsize", 600), uint64(T.Draw("hsegseed", 1000)))
		wire, uncompressed := payload, 0
		if lz && len(payload) > 0 {
			if seg, err := RParseSegment(RBuildSegment(payload, true, true, false), true); err == nil && seg.Compressed {
				wire, uncompressed = seg.Wire, len(payload)
			}
		}
		desc := []byte{byte(uncompressed >> 24), byte(uncompressed >> 16), byte(uncompressed >> 8), byte(uncompressed), byte(T.Draw("hsegself", 2)), 0}
		desc = append(desc, wire...)
		sc := c07Codec(lz)
		ts = append(ts, c04Target{name: fmt.Sprintf("DecodeSegment(valid checksums)/lz4=%v", lz), valid: desc, decode: func(b []byte, c, e int) {
			if w := c04ChecksummedSegment(b, lz); w != nil {
				_, _ = sc.DecodeSegment(rd(w, c, e))
			}
		}})
	}
	// 3. decompressors, both formats
	{
		data := c07Payload(T.Draw("ckind", 3), T.DrawGeo("csize", 600), uint64(T.Draw("cseed", 1000)))
		var a, b2, c3 bytes.Buffer
		_ = lz4.Compressor{}.CompressWithLength(bytes.NewReader(data), &a)
		_ = lz4.Compressor{}.Compress(bytes.NewReader(data), &b2)
		_ = snappy.Compressor{}.CompressWithLength(bytes.NewReader(data), &c3)
		ts = append(ts,
			c04Target{name: "lz4.DecompressWithLength", valid: append([]byte(nil), a.Bytes()...), decode: func(b []byte, c, e int) {
				var out bytes.Buffer
				_ = lz4.Compressor{}.DecompressWithLength(rd(b, c, e), &out)
			}},
			c04Target{name: "lz4.Decompress", valid: append([]byte(nil), b2.Bytes()...), decode: func(b []byte, c, e int) {
				var out bytes.Buffer
				_ = lz4.Compressor{}.Decompress(rd(b, c, e), &out)
			}},
			c04Target{name: "snappy.DecompressWithLength", snappy: true, valid: append([]byte(nil), c3.Bytes()...), decode: func(b []byte, c, e int) {
				var out bytes.Buffer
				_ = snappy.Compressor{}.DecompressWithLength(rd(b, c, e), &out)
			}},
		)
	}
	// 4. primitive notations
	ts = append(ts, c04Primitives(T, v)...)
	// 5. CQL value decoders
	ts = append(ts, c04Values(T, v)...)
	return ts
}

func c04Primitives(T *Tape, v primitive.ProtocolVersion) []c04Target {
	var ts []c04Target
	add := func(name string, write func(w io.Writer) error, read func(r io.Reader)) {
		var buf bytes.Buffer
		if write(&buf) == nil {
			ts = append(ts, c04Target{name: "primitive." + name, valid: append([]byte(nil), buf.Bytes()...), decode: func(b []byte, c, e int) { read(rd(b, c, e)) }})
		}
	}
	s := fmt.Sprintf("k%d", T.Draw("pval", 1000))
	add("ReadStringMultiMap", func(w io.Writer) error {
		return primitive.WriteStringMultiMap(map[string][]string{"COMPRESSION": {"lz4", s}, s: {}}, w)
	}, func(r io.Reader) { _, _ = primitive.ReadStringMultiMap(r) })
	add("ReadStringMap", func(w io.Writer) error { return primitive.WriteStringMap(map[string]string{"CQL_VERSION": "3.0.0", s: s}, w) },
		func(r io.Reader) { _, _ = primitive.ReadStringMap(r) })
	add("ReadBytesMap", func(w io.Writer) error { return primitive.WriteBytesMap(map[string][]byte{s: []byte(s), "n": nil}, w) },
		func(r io.Reader) { _, _ = primitive.ReadBytesMap(r) })
	add("ReadStringList", func(w io.Writer) error { return primitive.WriteStringList([]string{s, "", "x"}, w) },
		func(r io.Reader) { _, _ = primitive.ReadStringList(r) })
	add("ReadBytes", func(w io.Writer) error { return primitive.WriteBytes([]byte(s+s), w) }, func(r io.Reader) { _, _ = primitive.ReadBytes(r) })
	add("ReadShortBytes", func(w io.Writer) error { return primitive.WriteShortBytes([]byte(s), w) }, func(r io.Reader) { _, _ = primitive.ReadShortBytes(r) })
	add("ReadLongString", func(w io.Writer) error { return primitive.WriteLongString(s+s+s, w) }, func(r io.Reader) { _, _ = primitive.ReadLongString(r) })
	add("ReadString", func(w io.Writer) error { return primitive.WriteString(s, w) }, func(r io.Reader) { _, _ = primitive.ReadString(r) })
	add("ReadInet", func(w io.Writer) error {
		return primitive.WriteInet(&primitive.Inet{Addr: net.IPv4(10, 0, 0, byte(len(s))).To4(), Port: 9042}, w)
	}, func(r io.Reader) { _, _ = primitive.ReadInet(r) })
	add("ReadInetAddr", func(w io.Writer) error { return primitive.WriteInetAddr(net.ParseIP("fe80::1"), w) }, func(r io.Reader) { _, _ = primitive.ReadInetAddr(r) })
	add("ReadUuid", func(w io.Writer) error { return primitive.WriteUuid(&primitive.UUID{1, 2, 3}, w) }, func(r io.Reader) { _, _ = primitive.ReadUuid(r) })
	add("ReadReasonMap", func(w io.Writer) error {
		return primitive.WriteReasonMap([]*primitive.FailureReason{{Endpoint: net.IPv4(10, 0, 0, 1).To4(), Code: primitive.FailureCodeUnknown}, {Endpoint: net.ParseIP("fe80::2"), Code: primitive.FailureCodeUnknown}}, w)
	}, func(r io.Reader) { _, _ = primitive.ReadReasonMap(r) })
	vals := []*primitive.Value{primitive.NewValue([]byte(s)), primitive.NewNullValue(), primitive.NewValue([]byte{})}
	add("ReadPositionalValues", func(w io.Writer) error { return primitive.WritePositionalValues(vals, w, v) }, func(r io.Reader) { _, _ = primitive.ReadPositionalValues(r, v) })
	if v >= primitive.ProtocolVersion3 {
		add("ReadNamedValues", func(w io.Writer) error {
			return primitive.WriteNamedValues(map[string]*primitive.Value{s: vals[0], "n": vals[1]}, w, v)
		}, func(r io.Reader) { _, _ = primitive.ReadNamedValues(r, v) })
	}
	add("ReadValue", func(w io.Writer) error { return primitive.WriteValue(vals[0], w, v) }, func(r io.Reader) { _, _ = primitive.ReadValue(r, v) })
	add("ReadVint", func(w io.Writer) error { _, err := primitive.WriteVint(int64(len(s))<<40-77, w); return err }, func(r io.Reader) { _, _, _ = primitive.ReadVint(r) })
	add("ReadUnsignedVint", func(w io.Writer) error { _, err := primitive.WriteUnsignedVint(1<<62+uint64(len(s)), w); return err }, func(r io.Reader) { _, _, _ = primitive.ReadUnsignedVint(r) })
	add("ReadStreamId", func(w io.Writer) error { return primitive.WriteStreamId(7, w, v) }, func(r io.Reader) { _, _ = primitive.ReadStreamId(r, v) })
	return ts
}

type c04Point struct {
	A int32  `cassandra:"a"`
	B string `cassandra:"b"`
}

func c04Values(T *Tape, v primitive.ProtocolVersion) []c04Target {
	var ts []c04Target
	add := func(name string, c datacodec.Codec, src interface{}, dests ...func() interface{}) {
		if c == nil {
			return
		}
		enc, err := c.Encode(src, v)
		if err != nil || enc == nil {
			return
		}
		for i, mk := range dests {
			mk := mk
			ts = append(ts, c04Target{name: fmt.Sprintf("datacodec.%s/dest%d/%v", name, i, v), valid: enc, decode: func(b []byte, _, _ int) { _, _ = c.Decode(b, mk(), v) }})
		}
	}
	iface := func() interface{} { var x interface{}; return &x }
	x := int64(T.Draw("val", 1<<20)) - 1<<19
	s := fmt.Sprintf("v%d", x)
	add("Int", datacodec.Int, int32(x), func() interface{} { return new(int32) }, func() interface{} { return new(int64) }, func() interface{} { return new(string) }, iface)
	add("Bigint", datacodec.Bigint, x<<20, func() interface{} { return new(int64) }, func() interface{} { return new(*big.Int) }, func() interface{} { return new(uint8) }, iface)
	add("Varint", datacodec.Varint, new(big.Int).Lsh(big.NewInt(x), 70), func() interface{} { return new(*big.Int) }, func() interface{} { return new(int64) }, iface)
	add("Decimal", datacodec.Decimal, datacodec.CqlDecimal{Unscaled: big.NewInt(x), Scale: 3}, func() interface{} { return new(datacodec.CqlDecimal) }, func() interface{} { return new(string) }, func() interface{} { return new(float64) }, iface)
	add("Varchar", datacodec.Varchar, s, func() interface{} { return new(string) }, func() interface{} { return new([]byte) }, iface)
	add("Blob", datacodec.Blob, []byte(s), func() interface{} { return new([]byte) }, func() interface{} { return new(string) }, iface)
	add("Boolean", datacodec.Boolean, true, func() interface{} { return new(bool) }, func() interface{} { return new(int) }, iface)
	add("Double", datacodec.Double, float64(x)/3, func() interface{} { return new(float64) }, func() interface{} { return new(float32) }, iface)
	add("Float", datacodec.Float, float32(x)/3, func() interface{} { return new(float32) }, iface)
	add("Timestamp", datacodec.Timestamp, time.Unix(x, 0).UTC(), func() interface{} { return new(time.Time) }, func() interface{} { return new(int64) }, func() interface{} { return new(string) }, iface)
	add("Uuid", datacodec.Uuid, primitive.UUID{9, 8, 7}, func() interface{} { return new(primitive.UUID) }, func() interface{} { return new([]byte) }, func() interface{} { return new(string) }, iface)
	add("Inet", datacodec.Inet, net.IPv4(1, 2, 3, 4).To4(), func() interface{} { return new(net.IP) }, func() interface{} { return new([]byte) }, func() interface{} { return new(string) }, iface)
	if v >= primitive.ProtocolVersion4 {
		add("Smallint", datacodec.Smallint, int16(x), func() interface{} { return new(int16) }, iface)
		add("Tinyint", datacodec.Tinyint, int8(x), func() interface{} { return new(int8) }, iface)
		add("Date", datacodec.Date, int32(x), func() interface{} { return new(int32) }, func() interface{} { return new(time.Time) }, func() interface{} { return new(string) }, iface)
		add("Time", datacodec.Time, time.Duration(1234567), func() interface{} { return new(time.Duration) }, func() interface{} { return new(int64) }, func() interface{} { return new(string) }, iface)
	}
	if v >= primitive.ProtocolVersion5 || v.IsDse() {
		add("Duration", datacodec.Duration, datacodec.CqlDuration{Months: 1, Days: 2, Nanos: 3}, func() interface{} { return new(datacodec.CqlDuration) }, iface)
	}
	list, _ := datacodec.NewList(datatype.NewList(datatype.Int))
	add("List<int>", list, []int32{int32(x), 2, 3}, func() interface{} { return new([]int32) }, func() interface{} { return new([3]int32) }, func() interface{} { return new([]interface{}) }, iface)
	nested, _ := datacodec.NewList(datatype.NewList(datatype.NewList(datatype.Varchar)))
	add("List<list<varchar>>", nested, [][]string{{s, "a"}, {}}, func() interface{} { return new([][]string) }, iface)
	set, _ := datacodec.NewSet(datatype.NewSet(datatype.Varchar))
	add("Set<varchar>", set, []string{s, "b"}, func() interface{} { return new([]string) }, iface)
	mp, _ := datacodec.NewMap(datatype.NewMap(datatype.Varchar, datatype.Int))
	add("Map<varchar,int>", mp, map[string]int32{s: 1}, func() interface{} { return new(map[string]int32) }, func() interface{} { return new(map[string]interface{}) }, iface)
	// maps whose key type has no comparable Go counterpart (inet, blob, collections): every destination,
	// the free one (interface{}) in particular, where the codec has to pick the Go type itself
	if mk, err := datacodec.NewMap(datatype.NewMap(datatype.Inet, datatype.Int)); err == nil {
		add("Map<inet,int>", mk, map[string]int32{"10.0.0.1": int32(x)}, func() interface{} { return new(map[string]int32) }, iface)
	}
	if mk, err := datacodec.NewMap(datatype.NewMap(datatype.Blob, datatype.Varchar)); err == nil {
		add("Map<blob,varchar>", mk, map[string]string{s: "v"}, func() interface{} { return new(map[string]string) }, iface)
	}
	if mk, err := datacodec.NewMap(datatype.NewMap(datatype.NewList(datatype.Int), datatype.Int)); err == nil {
		add("Map<list<int>,int>", mk, map[[2]int32]int32{{1, int32(x)}: 7}, func() interface{} { return new(map[[2]int32]int32) }, iface)
	}
	if mk, err := datacodec.NewMap(datatype.NewMap(datatype.Varint, datatype.Uuid)); err == nil {
		add("Map<varint,uuid>", mk, map[int64]primitive.UUID{x: {1, 2, 3}}, func() interface{} { return new(map[int64]primitive.UUID) }, iface)
	}
	setb, _ := datacodec.NewSet(datatype.NewSet(datatype.Blob))
	add("Set<blob>", setb, [][]byte{[]byte(s), {}}, func() interface{} { return new([][]byte) }, iface)
	lin, _ := datacodec.NewList(datatype.NewList(datatype.Inet))
	add("List<inet>", lin, []net.IP{net.IPv4(1, 2, 3, 4).To4(), net.ParseIP("fe80::1")}, func() interface{} { return new([]net.IP) }, iface)
	mp2, _ := datacodec.NewMap(datatype.NewMap(datatype.Int, datatype.NewList(datatype.Varchar)))
	add("Map<int,list<varchar>>", mp2, map[int32][]string{1: {s}}, func() interface{} { return new(map[int32][]string) }, iface)
	if v >= primitive.ProtocolVersion3 {
		tuple, _ := datacodec.NewTuple(datatype.NewTuple(datatype.Int, datatype.Varchar))
		add("Tuple<int,varchar>", tuple, []interface{}{int32(x), s}, func() interface{} { return new([]interface{}) }, func() interface{} { return new(c04Point) }, iface)
		udtType, err := datatype.NewUserDefined("ks", "point", []string{"a", "b"}, []datatype.DataType{datatype.Int, datatype.Varchar})
		if err == nil {
			udt, _ := datacodec.NewUserDefined(udtType)
			add("UDT{a int,b varchar}", udt, map[string]interface{}{"a": int32(x), "b": s}, func() interface{} { return new(map[string]interface{}) }, func() interface{} { return new(c04Point) }, iface)
		}
	}
	return ts
}

// ---------- alterations ----------

var c04Vals16 = []uint16{0xffff, 0xfffe, 0, 1, 0x007f, 0x8000, 0x00ff, 0x0100} // no 0x7fff: as the upper half of a 4-byte count it means 2 Gi elements
// "huge" is capped at 4 Mi: several decoders allocate count x element size before reading any element,
// and this sandbox has no per-process memory limit (a 2 GiB count would take the whole machine down).
// Memory exhaustion is not part of the property statement; see DESIGN.md §5 C04.
var c04Vals32 = []uint32{0xffffffff, 0xfffffffe, 0, 1, 0x7f, 0x80, 0xff, 0x100, 0xffff, 0x10000, 0x80000000, 0x00400000}

type c04Mut struct {
	Kind   int // 0 flip 1 set16 2 set32 3 trunc 4 dup 5 delete 6 garbage 7 none
	Off    int
	Val    int
	N      int
	Chunk  int
	ErrAt  int
}

func (m c04Mut) String() string {
	k := []string{"flip bit", "set16", "set32", "truncate", "duplicate range", "delete range", "garbage", "none"}[m.Kind]
	return fmt.Sprintf("%s off=%d val=%d n=%d reader(chunk=%d errAt=%d)", k, m.Off, m.Val, m.N, m.Chunk, m.ErrAt)
}

func (m c04Mut) apply(valid []byte) []byte {
	b := append([]byte(nil), valid...)
	switch m.Kind {
	case 0:
		if i := m.Off / 8; i < len(b) {
			// not the high bytes of a small big-endian count (00 00 .. -> 40 00 ..): see c04Vals32
			if b[i] == 0 && i+1 < len(b) && b[i+1] == 0 {
				break
			}
			b[i] ^= 1 << uint(m.Off%8)
		}
	case 1:
		if m.Off+2 <= len(b) {
			v := c04Vals16[m.Val%len(c04Vals16)]
			b[m.Off], b[m.Off+1] = byte(v>>8), byte(v)
		}
	case 2:
		if m.Off+4 <= len(b) {
			v := c04Vals32[m.Val%len(c04Vals32)]
			b[m.Off], b[m.Off+1], b[m.Off+2], b[m.Off+3] = byte(v>>24), byte(v>>16), byte(v>>8), byte(v)
		}
	case 3:
		if m.Off <= len(b) {
			b = b[:m.Off]
		}
	case 4:
		if m.Off+m.N <= len(b) {
			b = append(append(append([]byte(nil), b[:m.Off+m.N]...), b[m.Off:m.Off+m.N]...), b[m.Off+m.N:]...)
		}
	case 5:
		if m.Off+m.N <= len(b) {
			b = append(append([]byte(nil), b[:m.Off]...), b[m.Off+m.N:]...)
		}
	case 6:
		s := uint64(m.Val)*2654435761 + 1
		b = make([]byte, m.N)
		for i := range b {
			b[i] = byte(splitmix(&s))
		}
	}
	return b
}

// c04Plan lists the alterations tried on one valid encoding: enumerated for small encodings, sampled
// for large ones. huge tells whether 2 GiB declared lengths may be injected (one shard only: a decoder
// that allocates the declared size first is slow and memory hungry, which the property does not forbid).
func c04Plan(n int, ord int, huge bool, next func(int) int) []c04Mut {
	var ms []c04Mut
	chunkOf := func(i int) int { return []int{0, 1, -1, 3, 0, -2, 7, -3}[(i+ord)%8] }
	add := func(m c04Mut) {
		m.Chunk = chunkOf(len(ms))
		m.ErrAt = -1
		ms = append(ms, m)
	}
	add(c04Mut{Kind: 7})
	small := n <= 320
	if small {
		for b := 0; b < n*8; b++ {
			add(c04Mut{Kind: 0, Off: b})
		}
		for o := 0; o+2 <= n; o++ {
			for vi := range c04Vals16 {
				add(c04Mut{Kind: 1, Off: o, Val: vi})
			}
		}
		for o := 0; o+4 <= n; o++ {
			for vi, v := range c04Vals32 {
				if v == 0x00400000 && (o+ord)%3 != 0 {
					continue
				}
				add(c04Mut{Kind: 2, Off: o, Val: vi})
			}
		}
		for o := 0; o < n; o++ {
			add(c04Mut{Kind: 3, Off: o})
		}
	} else {
		for i := 0; i < 400; i++ {
			add(c04Mut{Kind: 0, Off: next(n * 8)})
		}
		for i := 0; i < 400; i++ {
			add(c04Mut{Kind: 1, Off: next(n - 1), Val: next(len(c04Vals16))})
		}
		for i := 0; i < 400; i++ {
			vi := next(len(c04Vals32))
			add(c04Mut{Kind: 2, Off: next(n - 3), Val: vi})
		}
		for i := 0; i < 200; i++ {
			add(c04Mut{Kind: 3, Off: next(n)})
		}
	}
	for i := 0; i < 40 && n > 2; i++ {
		o := next(n - 1)
		l := 1 + next(minInt(n-o, 64))
		add(c04Mut{Kind: 4 + i%2, Off: o, N: l})
	}
	for i := 0; i < 20; i++ {
		add(c04Mut{Kind: 6, Val: next(1 << 30), N: next(2*n + 8)})
	}
	// reader failing at an offset (valid bytes, I/O error mid-way)
	for i := 0; i < 20 && n > 0; i++ {
		m := c04Mut{Kind: 7, Chunk: chunkOf(i), ErrAt: next(n)}
		ms = append(ms, m)
	}
	return ms
}

type c04Failure struct {
	target int
	name   string
	mut    c04Mut
	what   string // "panic: ..." or "hang"
	class  string
}

// c04Try runs one decode under recover and returns the panic (if any).
func c04Try(t *c04Target, m c04Mut) (panicked string, class string) {
	defer func() {
		if p := recover(); p != nil {
			if _, huge := p.(simrt.HugeAlloc); huge {
				panicked, class = "", "huge-alloc"
				return
			}
			buf := make([]byte, 8192)
			n := runtime.Stack(buf, false)
			val := fmt.Sprint(p)
			if len(val) > 120 {
				val = val[:120]
			}
			panicked = fmt.Sprintf("panic: %v\n%s", p, trimStack(string(buf[:n])))
			class = fmt.Sprintf("panic:%s@%s", normalizePanic(val), simrt.InnermostRepoFunc(string(buf[:n])))
		}
	}()
	alt := m.apply(t.valid)
	if t.snappy {
		// frame targets: the Snappy block starts right after the frame header (8 or 9 bytes)
		for _, off := range []int{0, 8, 9} {
			if snappyHuge(alt, off) {
				return "", "huge-alloc"
			}
		}
	}
	t.decode(alt, m.Chunk, m.ErrAt)
	return "", ""
}

// c04Battery runs the plan against one target in its own goroutine, watched in real time: a decoder
// that does not return within the watchdog is reported as a hang (the goroutine is abandoned).
var hugeAllocs atomic.Int64

func c04Battery(ti int, t *c04Target, plan []c04Mut, watchdog time.Duration) (fails []c04Failure, evals int) {
	var progress atomic.Int64
	done := make(chan struct{})
	var mu sync.Mutex
	seen := map[string]bool{}
	go func() {
		defer close(done)
		for i := range plan {
			progress.Store(int64(i))
			p, class := c04Try(t, plan[i])
			if class == "huge-alloc" {
				hugeAllocs.Add(1)
				continue
			}
			if p != "" {
				mu.Lock()
				if !seen[class] {
					seen[class] = true
					fails = append(fails, c04Failure{target: ti, name: t.name, mut: plan[i], what: p, class: class})
				}
				mu.Unlock()
			}
		}
	}()
	last := int64(-1)
	for {
		select {
		case <-done:
			return fails, len(plan)
		case <-time.After(watchdog):
			cur := progress.Load()
			if cur == last {
				mu.Lock()
				fails = append(fails, c04Failure{target: ti, name: t.name, mut: plan[cur], what: fmt.Sprintf("hang: decoder did not return within %v", watchdog), class: "hang@" + t.name})
				mu.Unlock()
				return fails, int(cur)
			}
			last = cur
		}
	}
}

func c04EntryClass(name string) string {
	// "DecodeFrame/ProtocolVersion OSS 4/LZ4/QUERY" -> "DecodeFrame"
	for i := 0; i < len(name); i++ {
		if name[i] == '/' {
			return name[:i]
		}
	}
	return name
}

// c04Case: one live session against a hostile peer (inside the simulator), and one batch of targets
// with its alteration battery (real time, real goroutine, watchdog).
func c04Case(w *Worker, i int) {
	for k := 0; k < 12; k++ {
		w.Exec(RunSpec{Scenario: "live", Index: i*12 + k})
	}
	T := NewTape(Mix(w.Job.Seed, "C04/targets", i))
	targets := c04Targets(T)
	ps := Mix(w.Job.Seed, "C04/plan", i)
	next := func(n int) int {
		if n <= 0 {
			return 0
		}
		return int(splitmix(&ps) % uint64(n))
	}
	huge := w.Job.Shard == 0
	hangSeen := map[string]bool{}
	for ti := range targets {
		if w.expired() {
			return
		}
		t := &targets[ti]
		plan := c04Plan(len(t.valid), i+ti, huge, next)
		fails, evals := c04Battery(ti, t, plan, 20*time.Second)
		w.Out.Counters["direct_evaluations"] += evals
		w.Out.Counters["direct_huge_allocations_refused_by_guard_not_judged"] += int(hugeAllocs.Swap(0))
		w.Out.Counters["direct_targets"]++
		w.Out.Counters["entry:"+c04EntryClass(t.name)] += evals
		if len(t.valid) <= 320 {
			w.Out.Counters["direct_targets_enumerated"]++
		}
		for _, f := range fails {
			if len(f.what) >= 4 && f.what[:4] == "hang" {
				// one confirmed hang per entry point and worker is enough: every further one costs minutes
				ep := c04EntryClass(t.name)
				if hangSeen[ep] {
					w.Out.Counters["further_hangs_of_an_entry_point_already_reported"]++
					continue
				}
				hangSeen[ep] = true
				// a real-time watchdog can fire under load: confirm alone with a much longer budget
				again, _ := c04Battery(ti, t, []c04Mut{f.mut}, 120*time.Second)
				if len(again) == 0 {
					w.Out.Counters["slow_decode_suspected_hang_not_confirmed"]++
					continue
				}
			}
			// re-derive through the normal run path (confirmation by replay, replay file, class key)
			w.Exec(RunSpec{Scenario: "one", Index: i, Params: map[string]int{"target": f.target, "kind": f.mut.Kind, "off": f.mut.Off, "val": f.mut.Val, "n": f.mut.N, "chunk": f.mut.Chunk, "errat": f.mut.ErrAt}})
		}
	}
}

// c04One re-executes exactly one alteration of one target (replay of the reader family). It runs
// outside the bubble: the watchdog needs the real clock.
func c04One(r *Run) {
	const P = "C04"
	T := NewTape(Mix(r.Spec.Seed, "C04/targets", r.Spec.Index))
	targets := c04Targets(T)
	p := r.Spec.Params
	ti := p["target"]
	if ti < 0 || ti >= len(targets) {
		return
	}
	t := &targets[ti]
	m := c04Mut{Kind: p["kind"], Off: p["off"], Val: p["val"], N: p["n"], Chunk: p["chunk"], ErrAt: p["errat"]}
	r.Config["entry_point"] = t.name
	r.Config["alteration"] = m.String()
	r.Config["valid_len"] = fmt.Sprint(len(t.valid))
	// the unaltered bytes first, then the alteration TWICE on the same target (same codec instance): a
	// decoder that an earlier input leaves in a bad state (a lock it still holds, a half-built table) shows
	// it on the next call
	ctl := c04Mut{Kind: 7, Chunk: m.Chunk, ErrAt: -1}
	fails, _ := c04Battery(ti, t, []c04Mut{ctl, m, m}, 120*time.Second)
	r.Nontrivial = true
	for _, f := range fails {
		oracle := "no-panic"
		if len(f.what) >= 4 && f.what[:4] == "hang" {
			oracle = "terminates"
		}
		r.Violate(P, oracle, f.class, "%s on a valid encoding of %d bytes altered by [%s]: %s\nvalid bytes: %x", t.name, len(t.valid), m.String(), f.what, clip(t.valid, 96))
	}
}

func clip(b []byte, n int) []byte {
	if len(b) > n {
		return b[:n]
	}
	return b
}

// ---------- live: hostile raw peer against live connections ----------

func c04Live(r *Run) {
	const P = "C04"
	r.LeaveCloseFamilyToC16 = true
	T := r.T
	v := r.DrawVersion()
	comp := r.DrawCompression(v)
	serverSide := T.Bool("target.server", 0.5)
	n := 1 + T.Draw("nframes", 6)
	opts := LinkOpts{Capacity: []int{1 << 20, 64, 4096}[T.DrawP("capacity", 3, 0.6)], Latency: ms([]int{0, 1}[T.Draw("latency", 2)]), ChunkReads: T.Bool("chunkReads", 0.6)}
	// stall: the peer delivers only part of its last frame or segment and then neither sends nor leaves.
	// The server connection's idle timeout (2 s here) is then the only bound on that decode: the
	// connection has to end by itself.
	stall := serverSide && T.Bool("stall", 0.25)
	idleTimeout := time.Hour
	if stall {
		idleTimeout = 2 * time.Second
	}
	r.Config["stall"] = fmt.Sprint(stall)
	r.Config["version"] = v.String()
	r.Config["compression"] = string(comp)
	r.Config["target"] = map[bool]string{true: "server connection", false: "client connection"}[serverSide]
	ctx, cancel := context.WithCancel(context.Background())
	a, b := r.Net.Pair("L", r.Net.NewClientAddr(), mustAddr("10.0.0.2:9042"), opts)
	codec := frameCodecFor(comp)
	ps := uint64(T.Draw("planseed", 1<<30))
	next := func(k int) int {
		if k <= 0 {
			return 0
		}
		return int(splitmix(&ps) % uint64(k))
	}
	// hostile bytes for one envelope: a valid encoding of a generated frame, altered
	hostile := func(response bool, stream int16) ([]byte, string) {
		f := GenFrame(T, GenOpts{Version: v, Requests: !response, Responses: response, NoEvents: false, NoStartup: true, MaxBytes: 600, BigChance: 0.1, Compressible: true, HeaderFlags: true}, stream)
		var buf bytes.Buffer
		if comp != primitive.CompressionNone && !v.SupportsModernFramingLayout() && T.Bool("compressflag", 0.4) {
			f.SetCompress(true)
		}
		if err := codec.EncodeFrame(f, &buf); err != nil {
			return nil, ""
		}
		wire := buf.Bytes()
		hl := v.FrameHeaderLengthInBytes()
		var m c04Mut
		switch T.Draw("mut", 6) {
		case 0:
			m = c04Mut{Kind: 7}
		case 1:
			m = c04Mut{Kind: 0, Off: next(len(wire) * 8)}
		case 2:
			m = c04Mut{Kind: 1, Off: next(len(wire) - 1), Val: next(len(c04Vals16))}
		case 3:
			m = c04Mut{Kind: 2, Off: hl + next(maxInt(1, len(wire)-hl-3)), Val: next(len(c04Vals32))}
		case 4:
			m = c04Mut{Kind: 3, Off: next(len(wire))}
		default:
			o := next(len(wire))
			m = c04Mut{Kind: 4 + next(2), Off: o, N: 1 + next(minInt(len(wire)-o, 32))}
		}
		r.Faults[[]string{"flip", "set16", "set32", "trunc", "dup", "delete", "garbage", "intact"}[m.Kind]]++
		return m.apply(wire), KindOf(f.Body.Message) + " " + m.String()
	}
	// a NON-self-contained segment (valid checksums) that starts a multi-segment frame whose header
	// declares an extreme body length
	extremeLens := []uint32{0xfffffff6, 0xfffffff5, 0xfffffc00, 0x7ffffff7, 0x7fffffff, 0x80000000, 0x40000000, 0xffffffff, 0}
	multiSegStart := func(response bool, stream int16, lz4Segments bool) ([]byte, string) {
		f := GenFrame(T, GenOpts{Version: v, Requests: !response, Responses: response, NoStartup: true, MaxBytes: 200}, stream)
		var buf bytes.Buffer
		if err := codec.EncodeFrame(f, &buf); err != nil || buf.Len() < 9 {
			return nil, ""
		}
		wire := append([]byte(nil), buf.Bytes()...)
		l := extremeLens[T.Draw("multiseg.len", len(extremeLens))]
		wire[5], wire[6], wire[7], wire[8] = byte(l>>24), byte(l>>16), byte(l>>8), byte(l)
		keep := 9 + T.Draw("multiseg.extra", minInt(len(wire)-9, 40)+1)
		r.Faults["multi_segment_start_with_extreme_length"]++
		return RBuildSegment(wire[:keep], false, lz4Segments, T.Bool("rawseg", 0.5)), fmt.Sprintf("first segment of a multi-segment %s declaring body length %#x", KindOf(f.Body.Message), l)
	}
	var sent []string
	var tasks []*c16Task
	mk := func(name string) *c16Task { t := &c16Task{name: name}; tasks = append(tasks, t); return t }
	mainT := mk("main")
	r.Go("main", func() {
		defer func() { mainT.done = true }()
		if serverSide {
			sc, err := client.VerifNewServerConnection(b, ctx, nil, 64, idleTimeout, nil, nil, func(*client.CqlServerConnection) {})
			if err != nil {
				return
			}
			r.Cleanup(func() { _ = sc.Close(); cancel() })
			peer := NewRawPeer(r, a, versionByte(v))
			hs := make(doneChan)
			hsT := mk("hsServer")
			r.Go("hsServer", func() { defer func() { hsT.done = true; close(hs) }(); _ = sc.AcceptHandshake(); r.Yield("hs.s") })
			err = peer.ClientHandshake(compName(comp), 1)
			r.Yield("hs.c")
			<-hs
			r.Yield("hs.joined")
			if err != nil {
				return
			}
			rcvT := mk("receiver")
			r.Go("receiver", func() {
				defer func() { rcvT.done = true }()
				for {
					var err error
					rcvT.call(r, "Server.Receive", func() { _, err = sc.Receive() })
					if err != nil {
						return
					}
				}
			})
			for i := 0; i < n; i++ {
				env, desc := hostile(false, int16(i+1))
				if env == nil {
					continue
				}
				var werr error
				if peer.Modern && T.Bool("hostile.multiseg", 0.25) {
					if seg, d := multiSegStart(false, int16(i+1), peer.lz4Segments()); seg != nil {
						sent = append(sent, d)
						werr = peer.Write(seg)
						r.Yield("peer.sent")
						if werr != nil {
							break
						}
						continue
					}
				}
				if stall && i == n-1 {
					// only part of the last one, then silence with the connection open
					whole := env
					if peer.Modern {
						whole = RBuildSegment(env[:minInt(len(env), RMaxPayload)], true, peer.lz4Segments(), T.Bool("rawseg", 0.5))
					}
					part := whole[:1+next(len(whole)-1)]
					sent = append(sent, fmt.Sprintf("%s, only the first %d of %d bytes, then the peer stalls", desc, len(part), len(whole)))
					_ = peer.Write(part)
					r.Faults["peer_stalls_mid_frame"]++
					r.Yield("peer.stalled")
					r.Sleep(30 * time.Second) // fifteen idle timeouts
					if !sc.IsClosed() && r.S.HugeAllocs == 0 { // a refused huge allocation ended the reading goroutine: not judged, see below
						r.Violate(P, "terminates", "blocked-on-stalled-peer", "the peer sent %d of %d bytes of a frame and then nothing (connection open): %v later the server connection (idle timeout %v) is still waiting for the rest", len(part), len(whole), 30*time.Second, idleTimeout)
					}
					break
				}
				sent = append(sent, desc)
				if peer.Modern {
					if T.Bool("hostile.segment", 0.3) {
						seg := RBuildSegment(env[:minInt(len(env), RMaxPayload)], true, peer.lz4Segments(), false)
						m := c04Mut{Kind: next(3), Off: next(len(seg) * 8), Val: next(8)}
						if m.Kind != 0 {
							m.Off = next(maxInt(1, len(seg)-4))
						}
						werr = peer.Write(m.apply(seg))
						r.Faults["hostile_segment"]++
					} else {
						werr = peer.Write(RBuildSegment(env[:minInt(len(env), RMaxPayload)], true, peer.lz4Segments(), T.Bool("rawseg", 0.5)))
						r.Faults["valid_segment_around_corrupt_envelope"]++
					}
				} else {
					werr = peer.Write(env)
				}
				r.Yield("peer.sent")
				if werr != nil {
					break
				}
			}
			r.Sleep(50 * time.Millisecond)
			_ = a.Close() // the peer goes away
			r.Yield("peer.closed")
			r.Sleep(2 * time.Hour) // past the idle timeout
			mainT.call(r, "ServerConn.Close", func() { _ = sc.Close() })
		} else {
			cc, err := client.VerifNewClientConnection(a, ctx, nil, comp, 16, 4, 5*time.Second, nil)
			if err != nil {
				return
			}
			r.Cleanup(func() { _ = cc.Close(); cancel() })
			peer := NewRawPeer(r, b, versionByte(v))
			hs := make(doneChan)
			hsT := mk("hsPeer")
			var hsErr error
			r.Go("hsPeer", func() { defer func() { hsT.done = true; close(hs) }(); hsErr = peer.ServerHandshake(); r.Yield("hs.s") })
			err = cc.InitiateHandshake(v, client.ManagedStreamId)
			r.Yield("hs.c")
			<-hs
			r.Yield("hs.joined")
			if err != nil || hsErr != nil {
				return
			}
			var wg sync.WaitGroup
			for i := 0; i < n; i++ {
				i := i
				st := mk(fmt.Sprintf("sender%d", i))
				wg.Add(1)
				r.Go(st.name, func() {
					defer func() { st.done = true; wg.Done() }()
					var req client.InFlightRequest
					var err error
					st.call(r, "Send", func() { req, err = cc.Send(queryFrame(v, client.ManagedStreamId, fmt.Sprintf("q%d", i))) })
					if err != nil || req == nil {
						return
					}
					for k := 0; k < 3; k++ {
						var f *frame.Frame
						st.call(r, "Receive", func() { f, err = cc.Receive(req) })
						if err != nil || f == nil {
							return
						}
					}
				})
			}
			peerT := mk("hostilePeer")
			r.Go("hostilePeer", func() {
				defer func() { peerT.done = true }()
				for i := 0; i < n; i++ {
					f, err := peer.ReadFrame()
					r.Yield("peer.recv")
					if err != nil {
						return
					}
					env, desc := hostile(true, f.H.Stream)
					if env == nil {
						continue
					}
					var werr error
					if peer.Modern && T.Bool("hostile.multiseg", 0.25) {
						if seg, d := multiSegStart(true, f.H.Stream, peer.lz4Segments()); seg != nil {
							sent = append(sent, d)
							if werr = peer.Write(seg); werr != nil {
								return
							}
							r.Yield("peer.sent")
							continue
						}
					}
					sent = append(sent, desc)
					if peer.Modern {
						if T.Bool("hostile.segment", 0.3) {
							seg := RBuildSegment(env[:minInt(len(env), RMaxPayload)], true, peer.lz4Segments(), false)
							m := c04Mut{Kind: next(3), Off: next(len(seg) * 8), Val: next(8)}
							if m.Kind != 0 {
								m.Off = next(maxInt(1, len(seg)-4))
							}
							werr = peer.Write(m.apply(seg))
							r.Faults["hostile_segment"]++
						} else {
							werr = peer.Write(RBuildSegment(env[:minInt(len(env), RMaxPayload)], true, peer.lz4Segments(), T.Bool("rawseg", 0.5)))
							r.Faults["valid_segment_around_corrupt_envelope"]++
						}
					} else {
						werr = peer.Write(env)
					}
					r.Yield("peer.sent")
					if werr != nil {
						return
					}
				}
				r.Sleep(50 * time.Millisecond)
				_ = b.Close()
			})
			mainT.inCall = "wait senders"
			wg.Wait()
			r.Yield("senders.joined")
			mainT.inCall = ""
			mainT.call(r, "Client.Close", func() { _ = cc.Close() })
			_ = b.Close()
		}
	})
	if !r.Drive() {
		r.Violate(P, "terminates", "step-budget", "run did not quiesce within the step budget (hostile input %v)", sent)
		return
	}
	r.Nontrivial = len(sent) > 0
	r.checkPanics()
	if r.CloseFamilyPanics > 0 {
		return
	}
	if r.S.HugeAllocs > 0 {
		// a hostile count asked for more than the allocation guard allows: in production the process
		// would try to allocate it; memory exhaustion is not judged (DESIGN.md §5 C04)
		r.Probe("huge_alloc_refused_run_not_judged")
		return
	}
	for _, t := range tasks {
		if !t.done && (len(t.inCall) < 5 || t.inCall[:5] != "wait ") {
			r.Violate(P, "terminates", "blocked:"+t.stuckAt(), "after hostile input %v and the peer's departure, task %s is still blocked in %q (%s) at quiescence", sent, t.name, t.inCall, t.stuckAt())
		}
	}
	if r.Spec.Trace {
		r.Sample = map[string]interface{}{"hostile_envelopes": sent}
	}
	_ = segment.MaxPayloadLength
}

func maxInt(a, b int) int {
	if a > b {
		return a
	}
	return b
}

// ---------- nesting: cost of decoding must not blow up with nesting depth ----------
//
// "fails to terminate" for inputs up to 1 MiB cannot be observed directly when the blow-up is
// quadratic (it would take hours and terabytes), so it is observed by scaling: the same truncated,
// deeply nested type descriptor is decoded at depth d and 4d and the bytes allocated by the call are
// compared (allocation counts do not depend on machine load). A linear decoder allocates ~4x as much,
// a quadratic one ~16x.

func init() {
	Register(&Scenario{Name: "nest", Property: "C04", Body: c04Nest, NoBubble: true})
	pd := props["C04"]
	prev := pd.Case
	pd.Case = func(w *Worker, i int) {
		prev(w, i)
		if i%4 == 0 {
			w.Exec(RunSpec{Scenario: "nest", Index: i, Params: map[string]int{"kind": (i / 4) % 3, "version": (i / 12) % len(allVersions)}})
		}
	}
}

func c04NestedType(kind, depth int) []byte {
	var b []byte
	for i := 0; i < depth; i++ {
		switch kind {
		case 0:
			b = append(b, 0x00, 0x20) // list<
		case 1:
			b = append(b, 0x00, 0x22) // set<
		default:
			b = append(b, 0x00, 0x21, 0x00, 0x09) // map<int,
		}
	}
	return append(b, 0x00, 0x09) // int
}

func c04Nest(r *Run) {
	const P = "C04"
	kind := r.Spec.Params["kind"] % 3
	v := allVersions[r.Spec.Params["version"]%len(allVersions)]
	name := []string{"list", "set", "map"}[kind]
	r.Config["entry_point"] = "ReadDataType"
	r.Config["input"] = fmt.Sprintf("%s nested d and 4d levels deep, last 2 bytes cut off (version %v)", name, v)
	measure := func(depth int) (allocated uint64, dur time.Duration, size int) {
		in := c04NestedType(kind, depth)
		in = in[:len(in)-2] // truncated in transit: the innermost element type is missing
		runtime.GC()
		var m0, m1 runtime.MemStats
		runtime.ReadMemStats(&m0)
		t0 := time.Now()
		func() {
			defer func() { _ = recover() }()
			_, _ = datatype.ReadDataType(bytes.NewReader(in), v)
		}()
		dur = time.Since(t0)
		runtime.ReadMemStats(&m1)
		return m1.TotalAlloc - m0.TotalAlloc, dur, len(in)
	}
	const d = 250
	a1, t1, n1 := measure(d)
	a2, t2, n2 := measure(4 * d)
	r.Nontrivial = true
	r.Evals = 2
	r.Probes["nesting_pairs_measured"]++
	ratio := float64(a2) / float64(a1+1)
	r.Config["measured"] = fmt.Sprintf("depth %d: %d bytes in, %d bytes allocated, %v; depth %d: %d bytes in, %d bytes allocated, %v; ratio %.1f", d, n1, a1, t1, 4*d, n2, a2, t2, ratio)
	// linear: ~4; n log n: ~5; quadratic: ~16. Also require a substantial absolute amount so that
	// constant overheads cannot matter.
	if ratio > 10 && a2 > 8<<20 {
		per := float64(a2) / float64(4*d) / float64(4*d)
		atLimit := per * 524288 * 524288
		r.Violate(P, "terminates", "superlinear-decode:ReadDataType/nested-"+name, "ReadDataType on a truncated %s type nested %d deep (%d input bytes) allocates %d bytes, nested %d deep (%d input bytes) %d bytes: x%.1f for x4 input, i.e. quadratic. Extrapolated to the 1 MiB input bound (524288 levels) that is about %.0f GiB and a proportional running time: the call does not terminate in practice (measured: %v and %v)", name, d, n1, a1, 4*d, n2, a2, ratio, atLimit/(1<<30), t1, t2)
	}
}

// c04ChecksummedSegment builds a v5 segment with valid CRC-24 and CRC-32 from a descriptor:
// [4 bytes declared uncompressed length][1 byte self-contained][1 byte unused][payload as transmitted].
func c04ChecksummedSegment(desc []byte, lz4On bool) []byte {
	if len(desc) < 6 {
		return nil
	}
	declared := (uint64(desc[0])<<24 | uint64(desc[1])<<16 | uint64(desc[2])<<8 | uint64(desc[3])) & RMaxPayload
	self := uint64(desc[4] & 1)
	payload := desc[6:]
	if len(payload) > RMaxPayload {
		payload = payload[:RMaxPayload]
	}
	var out []byte
	hl := 3
	hd := uint64(len(payload)) | self<<17
	if lz4On {
		hl = 5
		hd = uint64(len(payload)) | declared<<17 | self<<34
	}
	for i := 0; i < hl; i++ {
		out = append(out, byte(hd>>(8*uint(i))))
	}
	c := RCrc24(hd, hl)
	out = append(out, byte(c), byte(c>>8), byte(c>>16))
	out = append(out, payload...)
	c32 := RCrc32(payload)
	return append(out, byte(c32), byte(c32>>8), byte(c32>>16), byte(c32>>24))
}
