package sim

// framegen.go: tape-driven generator of version-valid CQL native-protocol frames, plus the canonical
// form / comparison used by round-trip properties.
//
// Every decision is a Tape draw; drawing 0 everywhere yields the first message kind with empty or
// shortest fields and no optional parts. "Version-valid" is the intersection of what specs/*.spec
// define for a version and what the library codec of that version can carry; when in doubt the
// generator under-approximates (a frame never generated only costs coverage).

import (
	"fmt"
	"net"
	"reflect"
	"sort"
	"strings"

	"github.com/datastax/go-cassandra-native-protocol/datatype"
	"github.com/datastax/go-cassandra-native-protocol/frame"
	"github.com/datastax/go-cassandra-native-protocol/message"
	"github.com/datastax/go-cassandra-native-protocol/primitive"
)

// GenKnownBad enables frames that are valid per the specs but that the library is known to mishandle
// (see the list at genKnownBadDoc). It is ON since the defect it guarded was repaired in /repo by a
// "fix:" commit (WRITE_FAILURE with write type CAS): generating it keeps the repair under test.
var GenKnownBad = true

// genKnownBadDoc documents what GenKnownBad adds:
//   - ERROR WRITE_FAILURE with write type "CAS" (v5): primitive.WriteType.IsValid (constants.go:668)
//     omits WriteTypeCas, so errorCodec.Decode rejects a frame its own Encode produced.
const genKnownBadDoc = "WRITE_FAILURE/CAS"

// GenOpts restricts what GenFrame may produce.
type GenOpts struct {
	Version                primitive.ProtocolVersion
	Requests               bool    // allow request messages
	Responses              bool    // allow response messages (incl. EVENT); neither set = both
	NoEvents               bool    // exclude EVENT messages
	NoStartup              bool    // exclude STARTUP (it reconfigures a server connection)
	MaxBytes               int     // soft cap for big payload fields; default 2000 when 0
	BigChance              float64 // probability that one field becomes big (up to MaxBytes)
	Compressible           bool    // big fields repetitive (compress well) instead of pseudo-random
	AllowTracingOnRequests bool    // a QUERY/PREPARE/EXECUTE request may carry the TRACING header flag
	HeaderFlags            bool    // generate tracing id / custom payload / warnings where valid
}

// gen carries the tape, the options and the version predicates used throughout.
type gen struct {
	t   *Tape
	o   GenOpts
	v   primitive.ProtocolVersion
	vocab bool // identifiers come from identVocabulary
	big bool // a big field is still owed to this message
	max int
	// Version classes. DSE1=0x41 and DSE2=0x42 compare greater than every OSS version, exactly as the
	// library's own `v >= ProtocolVersionN` tests do.
	v3, v4 bool // v3+: all but v2; v4+: v4, v5, DSE1, DSE2
	v5d2   bool // v5 and DSE2: keyspace-per-query, result metadata id (constants.go:113,134,147)
	v5only bool // OSS v5: now-in-seconds, write-timeout contentions, CAS/VIEW/CDC write types
	dse    bool // DSE1, DSE2: continuous paging, page size in bytes, REVISE_REQUEST
}

func newGen(t *Tape, o GenOpts) *gen {
	v := o.Version
	g := &gen{t: t, o: o, v: v, max: o.MaxBytes}
	if g.max <= 0 {
		g.max = 2000
	}
	g.v3 = v >= primitive.ProtocolVersion3
	g.v4 = v >= primitive.ProtocolVersion4
	g.v5d2 = v == primitive.ProtocolVersion5 || v == primitive.ProtocolVersionDse2
	g.v5only = v == primitive.ProtocolVersion5
	g.dse = v.IsDse()
	// swarm: a quarter of the frames draw all their identifiers from a four-word vocabulary, so that the
	// same keyspace / table / type names recur across frames with different definitions (a renamed field,
	// a changed field type): anything memoised by name then meets a second definition
	g.vocab = t.Bool("gen.vocab", 0.25)
	return g
}

var identVocabulary = []string{"ks", "tbl", "address", "v"}

// edgeLens are lengths around the powers of two where a fixed-size scratch buffer would end.
var edgeLens = []int{15, 16, 17, 31, 32, 33, 62, 63, 64, 65, 66, 127, 128, 129, 255, 256, 257}

// GenFrame draws one version-valid frame from the tape. Stream id is set to streamId, whatever the
// message (the caller picks -1 for EVENTs if it cares, and stays within int8 for v2: streamid.go:38).
func GenFrame(t *Tape, o GenOpts, streamId int16) *frame.Frame {
	g := newGen(t, o)
	f := frame.NewFrame(o.Version, streamId, g.message()) // NewFrame adds USE_BETA itself when needed
	g.headerParts(f)
	return f
}

// GenMessage draws one version-valid message (used by GenFrame).
func GenMessage(t *Tape, o GenOpts) message.Message { return newGen(t, o).message() }

// ---------------------------------------------------------------- raw material

// xs is a local xorshift64 used to expand one drawn seed into many bytes (never one draw per byte).
type xs uint64

func newXs(seed uint64) *xs {
	x := xs(seed*0x9e3779b97f4a7c15 + 0x632be59bd9b4e019)
	if x == 0 {
		x = 1
	}
	return &x
}

func (x *xs) next() uint64 {
	v := uint64(*x)
	v ^= v << 13
	v ^= v >> 7
	v ^= v << 17
	*x = xs(v)
	return v
}

func (g *gen) seed(site string) uint64 {
	return uint64(g.t.Draw(site+".s1", 1<<30))<<30 | uint64(g.t.Draw(site+".s0", 1<<30))
}

const identAlphabet = "abcdefghijklmnopqrstuvwxyz0123456789_"

var textAlphabet = []rune("abcdefghijklmnopqrstuvwxyz ABCDEFGHIJKLMNOPQRSTUVWXYZ0123456789_.,=?*'()éλ☃")

// blob returns n bytes (non-nil even when n == 0) expanded from one seed; printable ASCII when text.
// With Compressible the content is a short unit repeated.
func (g *gen) blob(site string, n int, text bool) []byte {
	out := make([]byte, n)
	if n == 0 {
		return out
	}
	x := newXs(g.seed(site))
	conv := func(r uint64) byte {
		if text {
			return byte(32 + r%95)
		}
		return byte(r)
	}
	unit := n
	if g.o.Compressible && n > 40 {
		unit = 4 + int(x.next()%13)
	}
	for i := 0; i < unit; i += 8 {
		r := x.next()
		for j := 0; j < 8 && i+j < unit; j++ {
			out[i+j] = conv(r >> (8 * j))
		}
	}
	for i := unit; i < n; i++ {
		out[i] = out[i-unit]
	}
	return out
}

// size draws the length of a big-eligible field: small (min..40) unless this field takes the
// message's one big slot.
func (g *gen) size(site string, min int) int {
	if g.big && g.t.Bool(site+".big", 0.5) {
		g.big = false
		return 1 + g.t.Draw(site+".biglen", g.max)
	}
	return min + g.t.DrawGeo(site+".len", 41-min)
}

// text draws a short UTF-8 string of min..max runes for [string] fields (never big: [string] has a
// 16-bit length).
func (g *gen) text(site string, min, max int) string {
	n := min + g.t.DrawGeo(site+".len", max-min+1)
	if max >= 20 && g.t.Bool(site+".edge", 0.05) {
		n = edgeLens[g.t.Draw(site+".edgelen", len(edgeLens))]
	}
	if n == 0 {
		return ""
	}
	x := newXs(uint64(g.t.Draw(site+".s", 1<<16)))
	rs := make([]rune, n)
	for i := range rs {
		rs[i] = textAlphabet[x.next()%uint64(len(textAlphabet))]
	}
	return string(rs)
}

// ident draws a non-empty identifier (keyspace, table, column, function ... names).
func (g *gen) ident(site string) string {
	if g.vocab {
		return identVocabulary[g.t.Draw(site+".word", len(identVocabulary))]
	}
	n := 1 + g.t.DrawGeo(site+".len", 10)
	if g.t.Bool(site+".edge", 0.03) {
		n = edgeLens[g.t.Draw(site+".edgelen", len(edgeLens))]
	}
	x := newXs(uint64(g.t.Draw(site+".s", 1<<16)))
	b := make([]byte, n)
	for i := range b {
		b[i] = identAlphabet[x.next()%uint64(len(identAlphabet))]
		if i == 0 {
			b[i] = identAlphabet[x.next()%26]
		}
	}
	return string(b)
}

// longText is a non-empty [long string] (query strings); eligible for the big slot.
func (g *gen) longText(site string) string { return string(g.blob(site, g.size(site, 1), true)) }

// bytesField is a non-null [bytes] (tokens, cells), possibly empty; eligible for the big slot.
func (g *gen) bytesField(site string) []byte { return g.blob(site, g.size(site, 0), false) }

// id is a non-empty [short bytes] identifier (prepared ids, metadata ids): every codec that carries
// one rejects the empty id (execute.go:62,69; result.go:246,253; batch.go:117).
func (g *gen) id(site string) []byte { return g.blob(site, 1+g.t.DrawGeo(site+".len", 16), false) }

func (g *gen) i32(site string) int32 {
	if g.t.Bool(site+".wide", 0.15) {
		return int32(g.t.Draw(site+".w", 1<<31-1))
	}
	return int32(g.t.DrawGeo(site, 64))
}

var allConsistencies = []primitive.ConsistencyLevel{ // identical in all six specs (§3 [consistency])
	primitive.ConsistencyLevelAny, primitive.ConsistencyLevelOne, primitive.ConsistencyLevelTwo,
	primitive.ConsistencyLevelThree, primitive.ConsistencyLevelQuorum, primitive.ConsistencyLevelAll,
	primitive.ConsistencyLevelLocalQuorum, primitive.ConsistencyLevelEachQuorum, primitive.ConsistencyLevelSerial,
	primitive.ConsistencyLevelLocalSerial, primitive.ConsistencyLevelLocalOne,
}

func (g *gen) consistency(site string) primitive.ConsistencyLevel {
	return allConsistencies[g.t.Draw(site, len(allConsistencies))]
}

// optSerial: serial consistency must be SERIAL or LOCAL_SERIAL (query_options.go:136 enforces it).
func (g *gen) optSerial(site string) *primitive.ConsistencyLevel {
	if !g.t.Bool(site, 0.3) {
		return nil
	}
	c := primitive.ConsistencyLevelSerial
	if g.t.Bool(site+".local", 0.5) {
		c = primitive.ConsistencyLevelLocalSerial
	}
	return &c
}

// optTimestamp: default timestamp, flag 0x20, v3+ only (v2 spec §4.1.4 stops at 0x10); negative
// values are forbidden by the specs.
func (g *gen) optTimestamp(site string) *int64 {
	if !g.v3 || !g.t.Bool(site, 0.3) {
		return nil
	}
	ts := int64(g.t.Draw(site+".hi", 1<<31))<<31 | int64(g.t.Draw(site+".lo", 1<<31))
	return &ts
}

// optKeyspace: per-request keyspace, flag 0x80, v5 and DSE2 only.
func (g *gen) optKeyspace(site string) string {
	if !g.v5d2 || !g.t.Bool(site, 0.3) {
		return ""
	}
	return g.ident(site)
}

// optNowInSeconds: flag 0x100, OSS v5 only (constants.go:136; absent from dse_protocol_v2.spec).
func (g *gen) optNowInSeconds(site string) *int32 {
	if !g.v5only || !g.t.Bool(site, 0.3) {
		return nil
	}
	n := g.i32(site + ".v")
	return &n
}

// value draws a [value]: regular (possibly empty), null, or unset (v4+ only: values.go:96).
func (g *gen) value(site string) *primitive.Value {
	kinds := 2
	if g.v4 {
		kinds = 3
	}
	switch g.t.DrawP(site+".vtype", kinds, 0.7) {
	case 1:
		return primitive.NewNullValue()
	case 2:
		return primitive.NewUnsetValue()
	}
	return primitive.NewValue(g.bytesField(site))
}

func (g *gen) values(site string, n int) []*primitive.Value {
	vs := make([]*primitive.Value, n)
	for i := range vs {
		vs[i] = g.value(site)
	}
	return vs
}

func (g *gen) ip(site string) net.IP {
	if g.t.Bool(site+".v6", 0.3) {
		b := g.blob(site, 16, false)
		b[0] = 0xfd // never an IPv4-mapped address: those cannot travel as 16 bytes (inet_addr.go:55)
		return net.IP(b)
	}
	b := g.blob(site, 4, false)
	if g.t.Bool(site+".in16", 0.3) {
		return net.IPv4(b[0], b[1], b[2], b[3]) // same address in 16-byte form
	}
	return net.IP(b)
}

func (g *gen) inet(site string) *primitive.Inet {
	return &primitive.Inet{Addr: g.ip(site), Port: int32(g.t.Draw(site+".port", 65536))}
}

// ---------------------------------------------------------------- message kinds

type kind struct {
	name string
	fn   func() message.Message
}

func (g *gen) pick(site string, ks []kind) message.Message { return ks[g.t.Draw(site, len(ks))].fn() }

func (g *gen) message() message.Message {
	req, resp := g.o.Requests, g.o.Responses
	if !req && !resp {
		req, resp = true, true
	}
	var ks []kind
	if req {
		ks = append(ks, kind{"OPTIONS", func() message.Message { return &message.Options{} }})
		if !g.o.NoStartup {
			ks = append(ks, kind{"STARTUP", g.startup})
		}
		heavy := []kind{{"QUERY", g.query}, {"EXECUTE", g.execute}, {"BATCH", g.batch}}
		ks = append(ks, heavy...)
		ks = append(ks, kind{"PREPARE", g.prepare}, kind{"REGISTER", g.register}, kind{"AUTH_RESPONSE", g.authResponse})
		if g.dse { // opcode 0xFF exists in the DSE specs only; reviseCodec checks IsDse
			ks = append(ks, kind{"REVISE_REQUEST", g.revise})
		}
		ks = append(ks, heavy...) // the structurally rich kinds get double weight
	}
	if resp {
		ks = append(ks,
			kind{"READY", func() message.Message { return &message.Ready{} }},
			kind{"AUTHENTICATE", g.authenticate}, kind{"SUPPORTED", g.supported},
			kind{"AUTH_CHALLENGE", g.authChallenge}, kind{"AUTH_SUCCESS", g.authSuccess},
			kind{"RESULT", g.result}, kind{"ERROR", g.errorMsg})
		if !g.o.NoEvents {
			ks = append(ks, kind{"EVENT", g.event})
		}
		ks = append(ks, kind{"RESULT", g.result}, kind{"ERROR", g.errorMsg})
	}
	k := g.t.Draw("kind", len(ks))
	g.big = g.t.Bool("big", g.o.BigChance)
	if g.vocab && resp && g.t.Bool("gen.vocab.metadata", 0.5) {
		// recurring names matter where definitions travel: column specs of RESULT Rows / Prepared
		if g.t.Bool("gen.vocab.prepared", 0.5) {
			return g.prepared()
		}
		return g.rows()
	}
	return ks[k].fn()
}

// ---------------------------------------------------------------- requests

// startup: CQL_VERSION is mandatory in every spec (§4.1.1). COMPRESSION is deliberately never
// generated (like the COMPRESSED header flag it is the caller's decision). The optional free-form keys
// are only those the version's spec lists: v5 DRIVER_NAME/DRIVER_VERSION/THROW_ON_OVERLOAD, DSE2
// CLIENT_ID/APPLICATION_NAME/APPLICATION_VERSION/DRIVER_NAME/DRIVER_VERSION; none elsewhere.
func (g *gen) startup() message.Message {
	m := &message.Startup{Options: map[string]string{message.StartupOptionCqlVersion: "3.0.0"}}
	var extra []string
	switch g.v {
	case primitive.ProtocolVersion5:
		extra = []string{message.StartupOptionDriverName, message.StartupOptionDriverVersion, message.StartupOptionThrowOnOverload}
	case primitive.ProtocolVersionDse2:
		extra = []string{message.StartupOptionClientId, message.StartupOptionApplicationName,
			message.StartupOptionApplicationVersion, message.StartupOptionDriverName, message.StartupOptionDriverVersion}
	}
	for i := 0; len(extra) > 0 && i < 2 && g.t.Bool("startup.more", 0.4); i++ {
		k := extra[g.t.Draw("startup.key", len(extra))]
		if k == message.StartupOptionThrowOnOverload {
			m.Options[k] = "1"
		} else {
			m.Options[k] = g.text("startup.val", 0, 12)
		}
	}
	return m
}

// queryOptions is <query_parameters> of QUERY and EXECUTE. Flag availability per version follows the
// specs' §4.1.4 flag tables, which primitive.SupportsQueryFlag (constants.go:117) mirrors:
// v2 0x01..0x10; v3/v4 +0x20 timestamp +0x40 names; v5 +0x80 keyspace +0x100 now-in-seconds;
// DSE1 as v4 plus 0x40000000/0x80000000; DSE2 as DSE1 plus 0x80. The encoder writes any flag for any
// version (and truncates to one byte below v5), so staying inside the table is the generator's job.
func (g *gen) queryOptions() *message.QueryOptions {
	t := g.t
	qo := &message.QueryOptions{Consistency: g.consistency("qo.cl")}
	modes := 2
	if g.v3 {
		modes = 3
	}
	switch t.DrawP("qo.values", modes, 0.4) {
	case 1: // positional; n == 0 gives an empty non-nil list (VALUES flag with <n> = 0)
		qo.PositionalValues = g.values("qo.pos", t.Draw("qo.npos", 4))
	case 2: // named (never together with positional: QueryOptions.Flags prefers positional)
		qo.NamedValues = map[string]*primitive.Value{}
		for i, n := 0, 1+t.Draw("qo.nnamed", 3); i < n; i++ {
			qo.NamedValues[fmt.Sprintf("%s%d", g.ident("qo.name"), i)] = g.value("qo.named")
		}
	}
	qo.SkipMetadata = t.Bool("qo.skipmeta", 0.3)
	if t.Bool("qo.pagesize", 0.3) {
		qo.PageSize = 1 + int32(t.Draw("qo.pagesize.v", 5000)) // "positive [int]"; <= 0 would drop the flag
		qo.PageSizeInBytes = g.dse && t.Bool("qo.pagebytes", 0.3)
	}
	if t.Bool("qo.paging", 0.3) {
		qo.PagingState = g.blob("qo.pstate", 1+t.DrawGeo("qo.pstate.len", 24), false)
	}
	qo.SerialConsistency = g.optSerial("qo.serial")
	qo.DefaultTimestamp = g.optTimestamp("qo.ts")
	qo.Keyspace = g.optKeyspace("qo.ks")
	qo.NowInSeconds = g.optNowInSeconds("qo.now")
	if g.dse && t.Bool("qo.cont", 0.3) {
		cp := &message.ContinuousPagingOptions{MaxPages: g.i32("qo.cont.max"), PagesPerSecond: g.i32("qo.cont.pps")}
		if g.v == primitive.ProtocolVersionDse2 { // next_pages: DSE2 only (dse_continuous_paging_options.go:45)
			cp.NextPages = g.i32("qo.cont.next")
		}
		qo.ContinuousPagingOptions = cp
	}
	return qo
}

func (g *gen) query() message.Message {
	return &message.Query{Query: g.longText("query.q"), Options: g.queryOptions()}
}

// prepare: query must be non-empty (prepare.go:68); keyspace only where PREPARE has flags (v5, DSE2).
func (g *gen) prepare() message.Message {
	return &message.Prepare{Query: g.longText("prepare.q"), Keyspace: g.optKeyspace("prepare.ks")}
}

// execute: result_metadata_id is mandatory in v5/DSE2 and absent elsewhere (execute.go:67).
func (g *gen) execute() message.Message {
	m := &message.Execute{QueryId: g.id("execute.id")}
	if g.v5d2 {
		m.ResultMetadataId = g.id("execute.rmid")
	}
	m.Options = g.queryOptions()
	return m
}

// batch: v2 has no <flags> at all (batch.go:131 SupportsBatchQueryFlags), hence no serial consistency
// and no timestamp there; named values are never generated (CASSANDRA-10246, decoder rejects 0x40).
func (g *gen) batch() message.Message {
	t := g.t
	m := &message.Batch{Type: primitive.BatchType(t.Draw("batch.type", 3)), Consistency: g.consistency("batch.cl")}
	for i, n := 0, t.Draw("batch.n", 4); i < n; i++ {
		c := &message.BatchChild{}
		if t.Bool("batch.byid", 0.5) { // exactly one of Query / Id
			c.Id = g.id("batch.id")
		} else {
			c.Query = g.longText("batch.q")
		}
		if nv := t.Draw("batch.nvals", 4); nv > 0 {
			c.Values = g.values("batch.val", nv)
		}
		m.Children = append(m.Children, c)
	}
	if g.v3 {
		m.SerialConsistency = g.optSerial("batch.serial")
		m.DefaultTimestamp = g.optTimestamp("batch.ts")
	}
	m.Keyspace = g.optKeyspace("batch.ks")
	m.NowInSeconds = g.optNowInSeconds("batch.now")
	return m
}

// register: one to three distinct event types (register.go:50 rejects an empty list).
func (g *gen) register() message.Message {
	all := []primitive.EventType{primitive.EventTypeTopologyChange, primitive.EventTypeStatusChange, primitive.EventTypeSchemaChange}
	m := &message.Register{}
	for i, mask := 0, 1+g.t.Draw("register.mask", 7); i < 3; i++ {
		if mask&(1<<i) != 0 {
			m.EventTypes = append(m.EventTypes, all[i])
		}
	}
	return m
}

func (g *gen) authResponse() message.Message {
	return &message.AuthResponse{Token: g.bytesField("authresp.token")}
}

// revise: CANCEL (DSE1+) or MORE_PAGES (DSE2 only); next_pages travels only with MORE_PAGES.
func (g *gen) revise() message.Message {
	m := &message.Revise{RevisionType: primitive.DseRevisionTypeCancelContinuousPaging, TargetStreamId: g.i32("revise.target")}
	if g.v == primitive.ProtocolVersionDse2 && g.t.Bool("revise.more", 0.5) {
		m.RevisionType = primitive.DseRevisionTypeMoreContinuousPages
		m.NextPages = 1 + int32(g.t.DrawGeo("revise.next", 100)) // "next_pages > 0" (dse_protocol_v2.spec §4.1.9)
	}
	return m
}

// ---------------------------------------------------------------- simple responses

func (g *gen) authenticate() message.Message { // authenticate.go:52: authenticator must be non-empty
	return &message.Authenticate{Authenticator: "org.apache.cassandra.auth." + g.ident("authn.class")}
}

func (g *gen) supported() message.Message {
	keys := []string{"CQL_VERSION", "COMPRESSION", message.SupportedProtocolVersions}
	m := &message.Supported{Options: map[string][]string{}}
	for i, n := 0, g.t.Draw("supported.n", 4); i < n; i++ {
		vals := []string{}
		for j, nv := 0, g.t.Draw("supported.nvals", 4); j < nv; j++ {
			vals = append(vals, g.text("supported.val", 0, 10))
		}
		m.Options[keys[i]] = vals
	}
	return m
}

func (g *gen) authChallenge() message.Message {
	return &message.AuthChallenge{Token: g.bytesField("authchal.token")}
}

// authSuccess: the final token is commonly null ([bytes] with length -1), so null is the default.
func (g *gen) authSuccess() message.Message {
	if !g.t.Bool("authok.has", 0.5) {
		return &message.AuthSuccess{}
	}
	return &message.AuthSuccess{Token: g.bytesField("authok.token")}
}

// ---------------------------------------------------------------- RESULT

func (g *gen) result() message.Message {
	return g.pick("result.kind", []kind{
		{"Void", func() message.Message { return &message.VoidResult{} }},
		{"Rows", g.rows},
		{"SetKeyspace", func() message.Message { return &message.SetKeyspaceResult{Keyspace: g.ident("setks")} }},
		{"Prepared", g.prepared},
		{"SchemaChange", func() message.Message {
			ct, tg, ks, obj, args := g.schemaChange("rsc")
			return &message.SchemaChangeResult{ChangeType: ct, Target: tg, Keyspace: ks, Object: obj, Arguments: args}
		}},
	})
}

// dtype draws a column type. Codes per version: 0x11..0x14 (date, time, smallint, tinyint) v4+;
// 0x15 duration v5/DSE1/DSE2; UDT 0x30 and tuple 0x31 v3+ (the codec checks none of this:
// CheckValidDataTypeCode ignores the version). v2's Text 0x0A cannot be built outside the datatype
// package and ReadDataType has no case for it, so it is not covered. Nesting depth is at most 2.
func (g *gen) dtype(site string, depth int) datatype.DataType {
	prims := []datatype.DataType{datatype.Varchar, datatype.Int, datatype.Ascii, datatype.Bigint, datatype.Blob,
		datatype.Boolean, datatype.Counter, datatype.Decimal, datatype.Double, datatype.Float, datatype.Timestamp,
		datatype.Uuid, datatype.Varint, datatype.Timeuuid, datatype.Inet}
	if g.v4 {
		prims = append(prims, datatype.Date, datatype.Time, datatype.Smallint, datatype.Tinyint)
	}
	if g.v5only || g.dse {
		prims = append(prims, datatype.Duration)
	}
	classes := 2
	if depth < 2 {
		classes = 3
	}
	if g.vocab && g.v3 && depth == 0 && g.t.Bool(site+".vocab.udt", 0.5) {
		ut := &datatype.UserDefined{Keyspace: g.ident(site + ".udtks"), Name: g.ident(site + ".udt")}
		for i, n := 0, 1+g.t.Draw(site+".nfields", 3); i < n; i++ {
			ut.FieldNames = append(ut.FieldNames, g.ident(site+".field"))
			ut.FieldTypes = append(ut.FieldTypes, g.dtype(site, depth+1))
		}
		return ut
	}
	switch g.t.DrawP(site+".class", classes, 0.6) {
	case 1:
		return datatype.NewCustom("org.apache.cassandra.db.marshal." + g.ident(site+".custom"))
	case 2:
		shapes := 3
		if g.v3 {
			shapes = 5
		}
		switch g.t.Draw(site+".shape", shapes) {
		case 0:
			return datatype.NewList(g.dtype(site, depth+1))
		case 1:
			return datatype.NewSet(g.dtype(site, depth+1))
		case 2:
			return datatype.NewMap(g.dtype(site, depth+1), g.dtype(site, depth+1))
		case 3:
			tt := &datatype.Tuple{}
			for i, n := 0, 1+g.t.Draw(site+".nfields", 3); i < n; i++ {
				tt.FieldTypes = append(tt.FieldTypes, g.dtype(site, depth+1))
			}
			return tt
		default:
			ut := &datatype.UserDefined{Keyspace: g.ident(site + ".udtks"), Name: g.ident(site + ".udt")}
			for i, n := 0, 1+g.t.Draw(site+".nfields", 3); i < n; i++ {
				ut.FieldNames = append(ut.FieldNames, g.ident(site+".field"))
				ut.FieldTypes = append(ut.FieldTypes, g.dtype(site, depth+1))
			}
			return ut
		}
	}
	return prims[g.t.Draw(site+".prim", len(prims))]
}

// columns draws n column specs, either all of one table (global_tables_spec) or one table each.
// ColumnMetadata.Index never travels and stays 0.
func (g *gen) columns(site string, n int) []*message.ColumnMetadata {
	perTable := g.t.Bool(site+".pertable", 0.3)
	ks, tb := g.ident(site+".ks"), g.ident(site+".tbl")
	cols := make([]*message.ColumnMetadata, n)
	for i := range cols {
		if perTable && i > 0 {
			ks, tb = g.ident(site+".ks"), g.ident(site+".tbl")
		}
		cols[i] = &message.ColumnMetadata{Keyspace: ks, Table: tb, Name: g.ident(site + ".name"), Type: g.dtype(site+".type", 0)}
	}
	return cols
}

// rows: ColumnCount always set, Columns either absent (NO_METADATA) or exactly ColumnCount specs
// (result_metadata.go:159). new_metadata_id (flag 0x08) only v5/DSE2 and, as the v5 spec demands, only
// together with column specs; continuous-paging fields only DSE and last-page only with a page number
// (RowsMetadata.Flags drops it otherwise). Every row has exactly ColumnCount cells: the decoder reads
// rows by that count.
func (g *gen) rows() message.Message {
	t := g.t
	nc := t.Draw("rows.ncols", 5)
	md := &message.RowsMetadata{ColumnCount: int32(nc)}
	if nc > 0 && t.Bool("rows.meta", 0.6) {
		md.Columns = g.columns("rows.col", nc)
	}
	if t.Bool("rows.paging", 0.3) {
		md.PagingState = g.blob("rows.pstate", 1+t.DrawGeo("rows.pstate.len", 24), false)
	}
	if g.v5d2 && md.Columns != nil && t.Bool("rows.newid", 0.3) {
		md.NewResultMetadataId = g.id("rows.newid")
	}
	if g.dse && t.Bool("rows.cont", 0.3) {
		md.ContinuousPageNumber = 1 + int32(t.DrawGeo("rows.cont.page", 100))
		md.LastContinuousPage = t.Bool("rows.cont.last", 0.3)
	}
	data := make(message.RowSet, t.DrawGeo("rows.nrows", 6))
	for i := range data {
		data[i] = make(message.Row, nc)
		for j := range data[i] {
			if !t.Bool("rows.null", 0.2) { // else a null cell: [bytes] of length -1
				data[i][j] = g.bytesField("rows.cell")
			}
		}
	}
	return &message.RowsResult{Metadata: md, Data: data}
}

// prepared: result metadata id v5/DSE2 only; pk indices v4+ only (result_metadata.go:102) and only
// pointing at existing bind variables. Both metadata blocks are always non-nil (the decoder always
// returns them); the result metadata of a PREPARE never carries paging or continuous-paging parts.
func (g *gen) prepared() message.Message {
	t := g.t
	m := &message.PreparedResult{PreparedQueryId: g.id("prep.id")}
	if g.v5d2 {
		m.ResultMetadataId = g.id("prep.rmid")
	}
	m.VariablesMetadata = &message.VariablesMetadata{}
	if n := t.Draw("prep.nvars", 4); n > 0 {
		m.VariablesMetadata.Columns = g.columns("prep.var", n)
		if g.v4 {
			npk, off := t.Draw("prep.npk", n+1), t.Draw("prep.pkoff", n)
			for i := 0; i < npk; i++ {
				m.VariablesMetadata.PkIndices = append(m.VariablesMetadata.PkIndices, uint16((off+i)%n))
			}
		}
	}
	m.ResultMetadata = &message.RowsMetadata{}
	if n := t.Draw("prep.ncols", 4); n > 0 {
		m.ResultMetadata.ColumnCount = int32(n)
		m.ResultMetadata.Columns = g.columns("prep.col", n)
	}
	return m
}

// schemaChange is shared by RESULT SchemaChange and EVENT SCHEMA_CHANGE. v2 carries only
// <change><keyspace><table> (target implied by an empty table); TYPE is v3+, FUNCTION and AGGREGATE
// v4+ (constants.go:159). Object is empty exactly for KEYSPACE targets and arguments exist exactly for
// FUNCTION/AGGREGATE, as the codec neither writes nor reads them otherwise.
func (g *gen) schemaChange(site string) (ct primitive.SchemaChangeType, tg primitive.SchemaChangeTarget, ks, obj string, args []string) {
	cts := []primitive.SchemaChangeType{primitive.SchemaChangeTypeCreated, primitive.SchemaChangeTypeUpdated, primitive.SchemaChangeTypeDropped}
	tgs := []primitive.SchemaChangeTarget{primitive.SchemaChangeTargetKeyspace, primitive.SchemaChangeTargetTable}
	if g.v3 {
		tgs = append(tgs, primitive.SchemaChangeTargetType)
	}
	if g.v4 {
		tgs = append(tgs, primitive.SchemaChangeTargetFunction, primitive.SchemaChangeTargetAggregate)
	}
	ct, tg = cts[g.t.Draw(site+".change", 3)], tgs[g.t.Draw(site+".target", len(tgs))]
	ks = g.ident(site + ".ks")
	if tg != primitive.SchemaChangeTargetKeyspace {
		obj = g.ident(site + ".obj")
	}
	if tg == primitive.SchemaChangeTargetFunction || tg == primitive.SchemaChangeTargetAggregate {
		for i, n := 0, g.t.Draw(site+".nargs", 4); i < n; i++ {
			args = append(args, g.ident(site+".arg"))
		}
	}
	return
}

// ---------------------------------------------------------------- EVENT

func (g *gen) event() message.Message {
	return g.pick("event.kind", []kind{
		{"StatusChange", func() message.Message {
			ct := primitive.StatusChangeTypeUp
			if g.t.Bool("event.down", 0.5) {
				ct = primitive.StatusChangeTypeDown
			}
			return &message.StatusChangeEvent{ChangeType: ct, Address: g.inet("event.addr")}
		}},
		{"TopologyChange", func() message.Message {
			// MOVED_NODE is listed by the v3 spec only (§4.2.6); v2, v4, v5 and both DSE specs say
			// "NEW_NODE or REMOVED_NODE" although the library accepts it for every v3+.
			cts := []primitive.TopologyChangeType{primitive.TopologyChangeTypeNewNode, primitive.TopologyChangeTypeRemovedNode}
			if g.v == primitive.ProtocolVersion3 {
				cts = append(cts, primitive.TopologyChangeTypeMovedNode)
			}
			return &message.TopologyChangeEvent{ChangeType: cts[g.t.Draw("event.topo", len(cts))], Address: g.inet("event.addr")}
		}},
		{"SchemaChange", func() message.Message {
			ct, tg, ks, obj, args := g.schemaChange("esc")
			return &message.SchemaChangeEvent{ChangeType: ct, Target: tg, Keyspace: ks, Object: obj, Arguments: args}
		}},
	})
}

// ---------------------------------------------------------------- ERROR

// writeType: SIMPLE..BATCH_LOG in every spec. forFailure: WRITE_FAILURE decoding validates the type with WriteType.IsValid, which lacks CAS
// (library defect, see GenKnownBad); WRITE_TIMEOUT does not validate, so CAS is fine there.
func (g *gen) writeType(site string, forFailure bool) primitive.WriteType {
	wts := []primitive.WriteType{primitive.WriteTypeSimple, primitive.WriteTypeBatch, primitive.WriteTypeUnloggedBatch,
		primitive.WriteTypeCounter, primitive.WriteTypeBatchLog}
	// CAS is a write type since lightweight transactions exist (listed from native_protocol_v3.spec on);
	// VIEW and CDC are listed from native_protocol_v4.spec on, hence also for DSE1/DSE2. Only the
	// <contentions> field that follows a CAS write type is v5-only.
	if g.v3 && (!forFailure || GenKnownBad) {
		wts = append(wts, primitive.WriteTypeCas)
	}
	if g.v4 {
		wts = append(wts, primitive.WriteTypeView, primitive.WriteTypeCdc)
	}
	return wts[g.t.Draw(site, len(wts))]
}

// failures fills <reasonmap> (v5, DSE1, DSE2) or <numfailures> (v4), never both: only one travels
// (error.go:507). Failure codes: 0..4 per dse_protocol_v1.spec, 0..6 per dse_protocol_v2.spec; the v5
// spec lists none, so the DSE1 set is used.
func (g *gen) failures(site string) (num int32, reasons []*primitive.FailureReason) {
	if !(g.v5only || g.dse) {
		return g.i32(site + ".num"), nil
	}
	codes := 5
	if g.v == primitive.ProtocolVersionDse2 {
		codes = 7
	}
	for i, n := 0, g.t.Draw(site+".n", 4); i < n; i++ {
		reasons = append(reasons, &primitive.FailureReason{Endpoint: g.ip(site + ".ep"), Code: primitive.FailureCode(g.t.Draw(site+".code", codes))})
	}
	return 0, reasons
}

func (g *gen) errorMsg() message.Message {
	msg := func() string { return g.text("err.msg", 0, 30) }
	ks := []kind{
		{"ServerError", func() message.Message { return &message.ServerError{ErrorMessage: msg()} }},
		{"ProtocolError", func() message.Message { return &message.ProtocolError{ErrorMessage: msg()} }},
		{"AuthenticationError", func() message.Message { return &message.AuthenticationError{ErrorMessage: msg()} }},
		{"Unavailable", func() message.Message {
			return &message.Unavailable{ErrorMessage: msg(), Consistency: g.consistency("err.cl"), Required: g.i32("err.required"), Alive: g.i32("err.alive")}
		}},
		{"Overloaded", func() message.Message { return &message.Overloaded{ErrorMessage: msg()} }},
		{"IsBootstrapping", func() message.Message { return &message.IsBootstrapping{ErrorMessage: msg()} }},
		{"TruncateError", func() message.Message { return &message.TruncateError{ErrorMessage: msg()} }},
		{"WriteTimeout", func() message.Message {
			m := &message.WriteTimeout{ErrorMessage: msg(), Consistency: g.consistency("err.cl"), Received: g.i32("err.received"),
				BlockFor: g.i32("err.blockfor"), WriteType: g.writeType("err.wtype", false)}
			if m.WriteType == primitive.WriteTypeCas && g.v5only { // <contentions>: v5 and CAS only (error.go:492)
				m.Contentions = uint16(g.t.Draw("err.contentions", 1<<16))
			}
			return m
		}},
		{"ReadTimeout", func() message.Message {
			return &message.ReadTimeout{ErrorMessage: msg(), Consistency: g.consistency("err.cl"), Received: g.i32("err.received"),
				BlockFor: g.i32("err.blockfor"), DataPresent: g.t.Bool("err.data", 0.5)}
		}},
		{"SyntaxError", func() message.Message { return &message.SyntaxError{ErrorMessage: msg()} }},
		{"Unauthorized", func() message.Message { return &message.Unauthorized{ErrorMessage: msg()} }},
		{"Invalid", func() message.Message { return &message.Invalid{ErrorMessage: msg()} }},
		{"ConfigError", func() message.Message { return &message.ConfigError{ErrorMessage: msg()} }},
		{"AlreadyExists", func() message.Message { // table is empty when a keyspace already existed
			m := &message.AlreadyExists{ErrorMessage: msg(), Keyspace: g.ident("err.ks")}
			if g.t.Bool("err.table", 0.5) {
				m.Table = g.ident("err.tbl")
			}
			return m
		}},
		{"Unprepared", func() message.Message { return &message.Unprepared{ErrorMessage: msg(), Id: g.id("err.id")} }},
	}
	if g.v4 { // 0x1300 READ_FAILURE, 0x1400 FUNCTION_FAILURE, 0x1500 WRITE_FAILURE: v4 spec changes section
		ks = append(ks,
			kind{"ReadFailure", func() message.Message {
				m := &message.ReadFailure{ErrorMessage: msg(), Consistency: g.consistency("err.cl"), Received: g.i32("err.received"),
					BlockFor: g.i32("err.blockfor"), DataPresent: g.t.Bool("err.data", 0.5)}
				m.NumFailures, m.FailureReasons = g.failures("err.fail")
				return m
			}},
			kind{"FunctionFailure", func() message.Message {
				m := &message.FunctionFailure{ErrorMessage: msg(), Keyspace: g.ident("err.ks"), Function: g.ident("err.fn")}
				for i, n := 0, g.t.Draw("err.nargs", 4); i < n; i++ {
					m.Arguments = append(m.Arguments, g.ident("err.arg"))
				}
				return m
			}},
			kind{"WriteFailure", func() message.Message {
				m := &message.WriteFailure{ErrorMessage: msg(), Consistency: g.consistency("err.cl"), Received: g.i32("err.received"),
					BlockFor: g.i32("err.blockfor"), WriteType: g.writeType("err.wtype", true)}
				m.NumFailures, m.FailureReasons = g.failures("err.fail")
				return m
			}})
	}
	return g.pick("err.kind", ks)
}

// ---------------------------------------------------------------- header-level parts

// headerParts adds the optional frame-body prefixes through the frame's own mutators. Tracing may be
// requested on QUERY/PREPARE/EXECUTE only ("only QUERY, PREPARE and EXECUTE queries support tracing",
// §2.2) and a tracing id is attached to RESULT responses only. Custom payload: v4+, on QUERY, PREPARE,
// EXECUTE, BATCH and on RESULT. Warnings: v4+, on RESULT and ERROR. COMPRESSED is never set.
func (g *gen) headerParts(f *frame.Frame) {
	t, op, resp := g.t, f.Header.OpCode, f.Header.IsResponse
	isExec := op == primitive.OpCodeQuery || op == primitive.OpCodePrepare || op == primitive.OpCodeExecute
	if !resp && isExec && g.o.AllowTracingOnRequests && t.Bool("hdr.reqtrace", 0.3) {
		f.RequestTracingId(true)
	}
	if !g.o.HeaderFlags {
		return
	}
	if resp && op == primitive.OpCodeResult && t.Bool("hdr.trace", 0.3) {
		var id primitive.UUID
		copy(id[:], g.blob("hdr.traceid", 16, false))
		f.SetTracingId(&id)
	}
	if !g.v4 {
		return
	}
	if isExec || op == primitive.OpCodeBatch || op == primitive.OpCodeResult {
		if n := t.DrawP("hdr.npayload", 4, 0.6); n > 0 {
			p := map[string][]byte{}
			for i := 0; i < n; i++ {
				var val []byte // a null [bytes] value with small probability
				if !t.Bool("hdr.payload.null", 0.1) {
					val = g.blob("hdr.payload.val", t.DrawGeo("hdr.payload.len", 24), false)
				}
				p[fmt.Sprintf("%s%d", g.ident("hdr.payload.key"), i)] = val
			}
			f.SetCustomPayload(p)
		}
	}
	if resp && (op == primitive.OpCodeResult || op == primitive.OpCodeError) && t.Bool("hdr.warn", 0.3) {
		w := []string{g.text("hdr.warning", 0, 30)}
		if t.Bool("hdr.warn2", 0.3) {
			w = append(w, g.text("hdr.warning", 0, 30))
		}
		f.SetWarnings(w)
	}
}

// ---------------------------------------------------------------- KindOf

// KindOf returns a short stable name of the message kind, e.g. "QUERY", "RESULT/Rows",
// "ERROR/Unavailable", "EVENT/SchemaChange" (for coverage statistics).
func KindOf(m message.Message) string {
	if m == nil || reflect.TypeOf(m).Kind() != reflect.Ptr {
		return fmt.Sprintf("%T", m)
	}
	name := reflect.TypeOf(m).Elem().Name()
	switch m.(type) {
	case message.Error:
		return "ERROR/" + name
	case message.Result:
		return "RESULT/" + strings.TrimSuffix(name, "Result")
	case message.Event:
		return "EVENT/" + strings.TrimSuffix(name, "Event")
	}
	if s, ok := opCodeNames[m.GetOpCode()]; ok {
		return s
	}
	return fmt.Sprintf("%T", m)
}

var opCodeNames = map[primitive.OpCode]string{
	primitive.OpCodeStartup: "STARTUP", primitive.OpCodeOptions: "OPTIONS", primitive.OpCodeQuery: "QUERY",
	primitive.OpCodePrepare: "PREPARE", primitive.OpCodeExecute: "EXECUTE", primitive.OpCodeBatch: "BATCH",
	primitive.OpCodeRegister: "REGISTER", primitive.OpCodeAuthResponse: "AUTH_RESPONSE", primitive.OpCodeDseRevise: "REVISE_REQUEST",
	primitive.OpCodeReady: "READY", primitive.OpCodeAuthenticate: "AUTHENTICATE", primitive.OpCodeSupported: "SUPPORTED",
	primitive.OpCodeAuthChallenge: "AUTH_CHALLENGE", primitive.OpCodeAuthSuccess: "AUTH_SUCCESS",
}

// ---------------------------------------------------------------- canonical form and comparison

// wireNil lists the fields whose nil and empty states ARE different on the wire and therefore survive
// normalisation: [bytes] fields (null = length -1 vs empty = length 0) and fields whose presence flag is
// derived from being non-nil (QueryOptions.Flags, RowsMetadata.Flags). Everywhere else the wire carries
// only a count, so nil and empty are the same thing.
var wireNil = map[string]bool{
	"Value.Contents": true, "QueryOptions.PositionalValues": true, "QueryOptions.NamedValues": true,
	"QueryOptions.PagingState": true, "RowsMetadata.PagingState": true, "RowsMetadata.NewResultMetadataId": true,
	"AuthResponse.Token": true, "AuthChallenge.Token": true, "AuthSuccess.Token": true,
}

// wireNilElems lists containers whose []byte leaves are [bytes] (null vs empty kept) while the container
// levels themselves are counted lists.
var wireNilElems = map[string]bool{"Body.CustomPayload": true, "RowsResult.Data": true}

var (
	ipType        = reflect.TypeOf(net.IP(nil))
	primitiveType = reflect.TypeOf(&datatype.PrimitiveType{})
	valueType     = reflect.TypeOf(primitive.Value{})
)

// NormalizeFrame returns a deep copy in canonical form, erasing exactly the distinctions the wire
// format cannot carry: nil vs empty slices/maps/string lists (but not null vs empty [bytes], see
// wireNil), an IPv4 address held in 4 or 16 bytes (canonical: 4 bytes), Header.BodyLength (set to 0),
// and a regular Value without contents, which is written as null (values.go:110). Nothing else. It does
// not use the library's generated DeepCopy, so that code stays under test as well.
func NormalizeFrame(f *frame.Frame) *frame.Frame {
	if f == nil {
		return nil
	}
	out := norm(reflect.ValueOf(f), false, false).Interface().(*frame.Frame)
	if out.Header != nil {
		out.Header.BodyLength = 0
	}
	return out
}

// norm deep-copies v. keep: v itself (a slice or map) keeps its nil/empty distinction; keepLeaf: []byte
// leaves reached through nested containers keep theirs.
func norm(v reflect.Value, keep, keepLeaf bool) reflect.Value {
	switch v.Kind() {
	case reflect.Ptr:
		if v.IsNil() || v.Type() == primitiveType { // immutable singletons with an unexported field
			return v
		}
		out := reflect.New(v.Type().Elem())
		out.Elem().Set(norm(v.Elem(), keep, keepLeaf))
		return out
	case reflect.Interface:
		out := reflect.New(v.Type()).Elem()
		if !v.IsNil() {
			out.Set(norm(v.Elem(), keep, keepLeaf))
		}
		return out
	case reflect.Struct:
		out := reflect.New(v.Type()).Elem()
		for i := 0; i < v.NumField(); i++ {
			name := v.Type().Name() + "." + v.Type().Field(i).Name
			out.Field(i).Set(norm(v.Field(i), wireNil[name], wireNilElems[name]))
		}
		if v.Type() == valueType {
			val := out.Addr().Interface().(*primitive.Value)
			if val.Type == primitive.ValueTypeRegular && val.Contents == nil {
				val.Type = primitive.ValueTypeNull
			} else if val.Type != primitive.ValueTypeRegular {
				val.Contents = nil
			}
		}
		return out
	case reflect.Slice:
		if v.Type() == ipType && v.Len() > 0 {
			ip := v.Interface().(net.IP)
			if ip4 := ip.To4(); ip4 != nil {
				ip = ip4
			}
			return reflect.ValueOf(append(net.IP{}, ip...))
		}
		isBytes := v.Type().Elem().Kind() == reflect.Uint8
		if v.Len() == 0 && (v.IsNil() || !keep) {
			return reflect.Zero(v.Type())
		}
		out := reflect.MakeSlice(v.Type(), v.Len(), v.Len())
		if isBytes {
			reflect.Copy(out, v)
			return out
		}
		for i := 0; i < v.Len(); i++ {
			out.Index(i).Set(norm(v.Index(i), keepLeaf && isByteSlice(v.Type().Elem()), keepLeaf))
		}
		return out
	case reflect.Map:
		if v.Len() == 0 && (v.IsNil() || !keep) {
			return reflect.Zero(v.Type())
		}
		out := reflect.MakeMapWithSize(v.Type(), v.Len())
		for it := v.MapRange(); it.Next(); {
			out.SetMapIndex(it.Key(), norm(it.Value(), keepLeaf && isByteSlice(v.Type().Elem()), keepLeaf))
		}
		return out
	}
	return v // scalars, strings and arrays (UUID) are values already
}

func isByteSlice(t reflect.Type) bool {
	return t.Kind() == reflect.Slice && t.Elem().Kind() == reflect.Uint8
}

// FramesEqual compares two frames after NormalizeFrame; ignoreCompressed masks the COMPRESSED header
// flag on both sides. On mismatch it returns a short human-readable description of the first difference.
func FramesEqual(a, b *frame.Frame, ignoreCompressed bool) (bool, string) {
	na, nb := NormalizeFrame(a), NormalizeFrame(b)
	if ignoreCompressed {
		for _, f := range []*frame.Frame{na, nb} {
			if f != nil && f.Header != nil {
				f.Header.Flags = f.Header.Flags.Remove(primitive.HeaderFlagCompressed)
			}
		}
	}
	if d := diff(reflect.ValueOf(na), reflect.ValueOf(nb), "frame"); d != "" {
		return false, d
	}
	return true, ""
}

func short(v reflect.Value) string {
	var s string
	switch {
	case !v.IsValid():
		return "<invalid>"
	case v.Kind() == reflect.Slice && v.Type().Elem().Kind() == reflect.Uint8:
		s = fmt.Sprintf("%x", v.Bytes())
		if v.IsNil() {
			s = "<null>"
		}
	case v.CanInterface():
		s = fmt.Sprintf("%v", v.Interface())
	default:
		s = fmt.Sprintf("%v", v)
	}
	if len(s) > 60 {
		s = fmt.Sprintf("%s...(%d chars)", s[:60], len(s))
	}
	return s
}

// diff returns "" when a and b are deeply equal, else a description of the first difference (struct
// fields in declaration order, map keys sorted). It reads unexported fields but never interfaces them.
func diff(a, b reflect.Value, path string) string {
	if a.IsValid() != b.IsValid() {
		return fmt.Sprintf("%s: %s != %s", path, short(a), short(b))
	} else if !a.IsValid() {
		return ""
	} else if a.Type() != b.Type() {
		return fmt.Sprintf("%s: type %v != %v", path, a.Type(), b.Type())
	}
	switch a.Kind() {
	case reflect.Ptr, reflect.Interface:
		if a.IsNil() || b.IsNil() {
			if a.IsNil() != b.IsNil() {
				return fmt.Sprintf("%s: nil=%v != nil=%v", path, a.IsNil(), b.IsNil())
			}
			return ""
		}
		if a.Kind() == reflect.Ptr && a.Pointer() == b.Pointer() {
			return ""
		}
		return diff(a.Elem(), b.Elem(), path)
	case reflect.Struct:
		for i := 0; i < a.NumField(); i++ {
			if d := diff(a.Field(i), b.Field(i), path+"."+a.Type().Field(i).Name); d != "" {
				return d
			}
		}
		return ""
	case reflect.Slice, reflect.Array:
		if a.Kind() == reflect.Slice && (a.IsNil() != b.IsNil() || a.Len() != b.Len()) {
			return fmt.Sprintf("%s: (nil=%v len=%d) %s != (nil=%v len=%d) %s", path, a.IsNil(), a.Len(), short(a), b.IsNil(), b.Len(), short(b))
		}
		for i := 0; i < a.Len(); i++ {
			if d := diff(a.Index(i), b.Index(i), fmt.Sprintf("%s[%d]", path, i)); d != "" {
				if a.Type().Elem().Kind() == reflect.Uint8 {
					return fmt.Sprintf("%s: %s != %s (first at byte %d)", path, short(a), short(b), i)
				}
				return d
			}
		}
		return ""
	case reflect.Map:
		if a.IsNil() != b.IsNil() || a.Len() != b.Len() {
			return fmt.Sprintf("%s: (nil=%v len=%d) != (nil=%v len=%d)", path, a.IsNil(), a.Len(), b.IsNil(), b.Len())
		}
		keys := a.MapKeys()
		sort.Slice(keys, func(i, j int) bool { return fmt.Sprint(keys[i]) < fmt.Sprint(keys[j]) })
		for _, k := range keys {
			bv := b.MapIndex(k)
			if !bv.IsValid() {
				return fmt.Sprintf("%s[%v]: missing on the right", path, k)
			}
			if d := diff(a.MapIndex(k), bv, fmt.Sprintf("%s[%v]", path, k)); d != "" {
				return d
			}
		}
		return ""
	case reflect.Bool:
		if a.Bool() != b.Bool() {
			return fmt.Sprintf("%s: %v != %v", path, a.Bool(), b.Bool())
		}
	case reflect.Int, reflect.Int8, reflect.Int16, reflect.Int32, reflect.Int64:
		if a.Int() != b.Int() {
			return fmt.Sprintf("%s: %d != %d", path, a.Int(), b.Int())
		}
	case reflect.Uint, reflect.Uint8, reflect.Uint16, reflect.Uint32, reflect.Uint64:
		if a.Uint() != b.Uint() {
			return fmt.Sprintf("%s: %d != %d", path, a.Uint(), b.Uint())
		}
	case reflect.String:
		if a.String() != b.String() {
			return fmt.Sprintf("%s: %q != %q", path, short(a), short(b))
		}
	default:
		return fmt.Sprintf("%s: unsupported kind %v", path, a.Kind())
	}
	return ""
}
