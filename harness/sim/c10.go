package sim

import (
	"context"
	"fmt"
	"net"
	"sort"
	"strings"
	"sync"
	"time"

	"github.com/datastax/go-cassandra-native-protocol/client"
	"github.com/datastax/go-cassandra-native-protocol/frame"
	"github.com/datastax/go-cassandra-native-protocol/message"
	"github.com/datastax/go-cassandra-native-protocol/primitive"
)

// C10 — responses reach exactly the request with the same stream id (DESIGN.md §5 C10).
// Scenario "route": K concurrent senders on a real client connection; the peer holds requests back
// and answers them in a drawn permutation with drawn gaps, multi-page responses, interleaved events
// and spurious responses; the recorded history is checked for exactly-once, in-order routing.

func init() {
	Register(&Scenario{Name: "route", Property: "C10", Body: func(r *Run) { c10Route(r, false) }})
	props["C10"] = &propDef{Case: func(w *Worker, i int) {
		w.Exec(RunSpec{Scenario: "route", Index: i})
	}}
}

type c10Req struct {
	sentAt   time.Time // fake clock, when Send returned
	tag      string
	req      client.InFlightRequest
	sendErr  error
	got      []string // page tags in arrival order
	recvErr  error
	closed   bool
	errAtEnd error
	doneFlag bool
}

type c10Plan struct {
	pages int
	gapMs int
	pad   int // filler bytes in the first page (a page far larger than the ones that follow it at once)
}

func c10Route(r *Run, rawPeer bool) {
	const P = "C10"
	T := r.T
	v := r.DrawVersion()
	comp := r.DrawCompression(v)
	N := 1 + T.Draw("maxInFlight", 12)
	maxPending := 1 + T.Draw("maxPending", 4)
	K := 1 + T.Draw("senders", 8)
	M := 1 + T.Draw("requests", 5)
	// events: normally fewer than the event queue holds (its capacity is maxInFlight); sometimes more,
	// in which case the connection may discard the surplus from the queue but must keep serving
	nEvents := T.Draw("events", N+1)
	if T.Bool("events.overflow", 0.2) {
		nEvents = N + 1 + T.Draw("events.extra", 4)
	}
	// overflow mode: multi-page responses may exceed MaxPending while the consumer is slow; the affected
	// request then legitimately fails, but its pages must still never reach another request
	overflowMode := v.IsDse() && T.Bool("pages.overflow", 0.25)
	if overflowMode {
		N = 1 + T.Draw("maxInFlight.small", 3) // few ids: a recycled id is handed out again soon
	}
	nSpurious := T.Draw("spurious", 3)
	opts := LinkOpts{
		Capacity:   []int{1 << 20, 256, 4096, 7}[T.DrawP("capacity", 4, 0.6)],
		Latency:    ms([]int{0, 1, 20}[T.Draw("latency", 3)]),
		ChunkReads: T.Bool("chunkReads", 0.5),
	}
	// timeout mode: a short read timeout, caller-chosen stream ids that every sender uses again for its
	// next request, and a peer that sometimes answers after the timeout: the request then legitimately
	// fails, but its late answer must never reach the request that uses the same id next
	timeoutMode := !overflowMode && T.Bool("timeouts", 0.3)
	readTimeout := time.Hour
	explicitIds := make([]int16, K)
	if timeoutMode {
		readTimeout = ms(200 + T.Draw("timeout.ms", 300))
		if opts.Capacity < 4096 {
			opts.Capacity = 4096
		}
		if opts.Latency > ms(1) || T.Bool("timeout.nolatency", 0.6) {
			opts.Latency = 0 // an answer can then overtake whatever the sending side does after its write
		}
		if !v.IsDse() && T.Bool("timeout.dse", 0.5) {
			// multi-page responses exist in the DSE versions only
			v = []primitive.ProtocolVersion{primitive.ProtocolVersionDse1, primitive.ProtocolVersionDse2}[T.Draw("timeout.dsev", 2)]
			if !v.SupportsCompression(comp) {
				comp = primitive.CompressionNone
			}
		}
		for i := range explicitIds {
			explicitIds[i] = int16(10 + i)
			if i > 0 && T.Bool("timeout.sharedid", 0.25) {
				explicitIds[i] = explicitIds[i-1] // two senders compete for one id: the loser is refused
			}
		}
	}
	r.Config["version"] = v.String()
	r.Config["compression"] = string(comp)
	r.Config["maxInFlight"] = fmt.Sprint(N)
	r.Config["maxPending"] = fmt.Sprint(maxPending)
	r.Config["senders"] = fmt.Sprint(K)
	r.Config["requests"] = fmt.Sprint(M)
	r.Config["events"] = fmt.Sprint(nEvents)
	r.Config["spurious"] = fmt.Sprint(nSpurious)
	r.Config["overflowMode"] = fmt.Sprint(overflowMode)
	r.Config["timeoutMode"] = fmt.Sprint(timeoutMode)

	plans := map[string]c10Plan{}
	paceMs := map[string]int{}
	cpMaxPages := map[string]int{}
	for i := 0; i < K; i++ {
		for j := 0; j < M; j++ {
			p := c10Plan{pages: 1}
			// multi-page responses (continuous-paging flags): in the DSE versions often, in the others now and then
			// (the codecs carry the flags in every version and the statement is about all versions)
			if (v.IsDse() && T.Bool("paged", 0.5)) || (!v.IsDse() && T.Bool("paged.oss", 0.2)) {
				p.pages = 1 + T.Draw("pages", maxPending)
				p.gapMs = T.Draw("gapms", 30)
				if p.pages > 1 && opts.Capacity >= 4096 && T.Bool("bigpage", 0.25) {
					p.pad = 33000 + T.Draw("bigpage.pad", 70000)
					p.gapMs = 0 // the small pages follow the big one at once
				}
			}
			tag := fmt.Sprintf("q%d.%d", i, j)
			paceMs[tag] = T.DrawP("pacems", 40, 0.5)
			cpMaxPages[tag] = []int{0, 0, 16, 1}[T.Draw("cp.maxpages", 3)] // 0 means "no limit"
			if timeoutMode && v.IsDse() && T.Bool("timeout.slowpages", 0.6) {
				// a response that takes longer than the read timeout as a whole while no single gap does:
				// the request must NOT time out (the consumer is prompt, so MaxPending is never exceeded)
				p.pages = 4 + T.Draw("pages.slow", 4)
				p.gapMs = int(readTimeout/time.Millisecond) / 2
				paceMs[tag] = 0
			}
			if overflowMode && T.Bool("overflow.this", 0.5) {
				// the stream of pages outlasts the moment the request fails: late pages keep arriving while
				// other requests are being sent (and ids are being recycled)
				p.pages = maxPending + 2 + T.Draw("pages.extra", 8)
				p.gapMs = 20 + T.Draw("gapms", 100)
				paceMs[tag] = 200 + T.Draw("pacems.slow", 400)
			}
			plans[tag] = p
		}
	}

	ctx, cancel := context.WithCancel(context.Background())
	a, b := r.Net.Pair("L", r.Net.NewClientAddr(), mustAddr("10.0.0.2:9042"), opts)

	// observations
	var reqs []*c10Req
	sentPages := map[string][]string{} // tag -> pages the peer sent successfully, in order
	pageAt := map[string][]time.Time{}  // tag -> fake-clock instants at which the peer handed each page to Send
	var sentEvents []string
	handlerSeen := [2][]string{}
	var chanEvents []string
	var serverGot []string
	mainDone := false
	handshakeOK := false

	handlers := []client.EventHandler{
		func(ev *frame.Frame, _ *client.CqlClientConnection) { handlerSeen[0] = append(handlerSeen[0], eventTag(ev)) },
		func(ev *frame.Frame, _ *client.CqlClientConnection) { handlerSeen[1] = append(handlerSeen[1], eventTag(ev)) },
	}

	r.Go("main", func() {
		defer func() { mainDone = true }()
		cc, err := client.VerifNewClientConnection(a, ctx, nil, comp, N, maxPending, readTimeout, handlers)
		if err != nil {
			r.Event("client conn: %v", err)
			return
		}
		sc, err := client.VerifNewServerConnection(b, ctx, nil, 4096, 10*time.Hour, nil, nil, func(*client.CqlServerConnection) {})
		if err != nil {
			r.Event("server conn: %v", err)
			return
		}
		r.Cleanup(func() { _ = cc.Close(); _ = sc.Close(); cancel() })
		hs := make(doneChan)
		r.Go("hsServer", func() {
			defer close(hs)
			_ = sc.AcceptHandshake()
			r.Yield("hs.server")
		})
		err = cc.InitiateHandshake(v, client.ManagedStreamId)
		r.Yield("hs.client")
		<-hs
		r.Yield("hs.joined")
		if err != nil {
			r.Violate(P, "handshake", "failed", "fault-free handshake failed: %v", err)
			return
		}
		handshakeOK = true

		// ---- peer: receiver collects requests, answerer answers them in a drawn order ----
		var pending []*frame.Frame
		var pmu sync.Mutex
		peerCond := NewCond()
		stopped := false
		expectMore := true
		var peerWG sync.WaitGroup
		peerWG.Add(2)
		r.Go("peer.recv", func() {
			defer peerWG.Done()
			for {
				f, err := sc.Receive()
				r.Yield("peer.recv")
				if err != nil {
					return
				}
				if f == nil {
					r.Violate(P, "api", "server-receive-nil", "CqlServerConnection.Receive returned (nil, nil)")
					return
				}
				serverGot = append(serverGot, queryTag(f))
				pmu.Lock()
				pending = append(pending, f)
				pmu.Unlock()
				peerCond.Bump()
			}
		})
		evLeft, spLeft := nEvents, nSpurious
		answererDone := false
		r.Go("peer.answer", func() {
			defer peerWG.Done()
			defer func() { answererDone = true }()
			send := func(f *frame.Frame) bool {
				err := sc.Send(f)
				r.Yield("peer.sent")
				return err == nil
			}
			for {
				pmu.Lock()
				n := len(pending)
				pmu.Unlock()
				if n == 0 {
					if !expectMore {
						// flush remaining events / spurious responses, then stop
						for evLeft > 0 {
							evLeft--
							tag := fmt.Sprintf("ev%d", nEvents-evLeft)
							if send(eventFrame(v, nEvents-evLeft)) {
								sentEvents = append(sentEvents, tag)
							}
						}
						return
					}
					peerCond.Wait(func() bool {
						pmu.Lock()
						defer pmu.Unlock()
						return len(pending) > 0 || stopped
					})
					pmu.Lock()
					if len(pending) == 0 && stopped {
						expectMore = false
					}
					pmu.Unlock()
					r.Yield("peer.wake")
					continue
				}
				// let more requests accumulate, sometimes
				if d := T.DrawP("peer.hold", 30, 0.5); d > 0 {
					r.Sleep(ms(d))
				}
				if timeoutMode && T.Bool("peer.late", 0.3) {
					r.Sleep(readTimeout + ms(20+T.Draw("peer.late.ms", 200)))
					r.Probes["answers_sent_after_the_read_timeout"]++
				}
				if evLeft > 0 && T.Bool("peer.event", 0.3) {
					evLeft--
					tag := fmt.Sprintf("ev%d", nEvents-evLeft)
					if send(eventFrame(v, nEvents-evLeft)) {
						sentEvents = append(sentEvents, tag)
					}
				}
				if spLeft > 0 && T.Bool("peer.spurious", 0.3) {
					spLeft--
					// a response for a stream id that is not in flight (managed ids are 1..N)
					spId := int16(20000 + spLeft)
					if v == primitive.ProtocolVersion2 {
						spId = int16(100 + spLeft) // v2 stream ids are one signed byte
					}
					_ = send(pageFrame(v, spId, fmt.Sprintf("spurious%d", spLeft), 0, 1))
					r.Probe("spurious_sent")
				}
				pmu.Lock()
				k := T.Draw("peer.pick", len(pending))
				f := pending[k]
				pending = append(pending[:k], pending[k+1:]...)
				if k > 0 {
					r.Probes["answered_out_of_order"]++
				}
				pmu.Unlock()
				tag := queryTag(f)
				p := plans[tag]
				for pg := 0; pg < p.pages; pg++ {
					if pg > 0 && p.gapMs > 0 {
						r.Sleep(ms(p.gapMs))
					}
					pad := 0
					if pg == 0 {
						pad = p.pad
					}
					pf := pageFramePadded(v, f.Header.StreamId, tag, pg, p.pages, pad)
					at := time.Now()
					if send(pf) {
						sentPages[tag] = append(sentPages[tag], pageTag(pf))
						pageAt[tag] = append(pageAt[tag], at)
					}
				}
				if p.pages > 1 {
					r.Probes["multi_page_responses"]++
				}
			}
		})

		// ---- senders ----
		var wg sync.WaitGroup
		for i := 0; i < K; i++ {
			i := i
			wg.Add(1)
			r.Go(fmt.Sprintf("sender%d", i), func() {
				defer wg.Done()
				for j := 0; j < M; j++ {
					rec := &c10Req{tag: fmt.Sprintf("q%d.%d", i, j)}
					reqs = append(reqs, rec)
					sid := int16(client.ManagedStreamId)
					if timeoutMode {
						sid = explicitIds[i]
					}
					qf := queryFrame(v, sid, rec.tag)
					if v.IsDse() && (plans[rec.tag].pages > 1 || len(rec.tag)%2 == 0) {
						// a DSE continuous-paging request carries its paging options (0 = no page limit)
						q := qf.Body.Message.(*message.Query)
						q.Options.PageSize = 100
						q.Options.ContinuousPagingOptions = &message.ContinuousPagingOptions{MaxPages: int32(cpMaxPages[rec.tag]), PagesPerSecond: 0}
					}
					rec.req, rec.sendErr = cc.Send(qf)
					r.Yield("sender.sent")
					if rec.sendErr != nil || rec.req == nil {
						r.Event("%s refused", rec.tag)
						r.Probes["send_refused"]++
						continue
					}
					rec.sentAt = time.Now()
					r.Event("%s sent id=%d", rec.tag, rec.req.StreamId())
					for {
						if d := paceMs[rec.tag]; d > 0 {
							r.Sleep(ms(d))
						}
						fr, err := cc.Receive(rec.req)
						r.Yield("sender.recv")
						if err != nil {
							rec.recvErr = err
							break
						}
						if fr == nil {
							rec.closed = true
							break
						}
						rec.got = append(rec.got, pageTag(fr))
						r.Event("%s <- %s", rec.tag, pageTag(fr))
					}
					rec.doneFlag = rec.req.IsDone()
					rec.errAtEnd = rec.req.Err()
					r.Yield("sender.checked")
				}
			})
		}
		wg.Wait()
		r.Yield("senders.joined")
		pmu.Lock()
		stopped = true
		pmu.Unlock()
		peerCond.Bump()
		// the answerer flushes the remaining events and stops; the receiver stops when we close
		// drain the event channel before closing (Close replaces it)
		// wait until everything the peer pushed has arrived (slow links), bounded in fake time
		for k := 0; k < 600; k++ {
			r.Sleep(200 * time.Millisecond)
			if answererDone && len(handlerSeen[0]) >= len(sentEvents) {
				break
			}
		}
		// handlers run before the event is queued: one more sleep lets every runnable task (the
		// incoming loop in particular) reach its next blocking point before the queue is inspected
		r.Sleep(200 * time.Millisecond)
		evc := cc.EventChannel()
	drain:
		for {
			select {
			case ev, ok := <-evc:
				if !ok {
					break drain
				}
				chanEvents = append(chanEvents, eventTag(ev))
			default:
				break drain
			}
		}
		_ = cc.Close()
		r.Yield("closed.client")
		_ = sc.Close()
		r.Yield("closed.server")
		peerWG.Wait()
		r.Yield("peer.joined")
		cancel()
	})

	if !r.Drive() {
		r.Violate(P, "liveness", "step-budget", "run did not quiesce within %d steps", r.StepBudget)
		return
	}
	if !mainDone {
		if handshakeOK {
			r.Violate(P, "liveness", "stuck", "fault-free run did not finish: a sender, the peer or Close is blocked at quiescence")
		}
		return
	}
	if !handshakeOK {
		return
	}
	planPages := map[string]int{}
	for tag, p := range plans {
		planPages[tag] = p.pages
	}
	accepted := c10Judge(r, &c10Obs{reqs: reqs, sentPages: sentPages, sentEvents: sentEvents, handlerSeen: handlerSeen, chanEvents: chanEvents,
		overflowMode: overflowMode, timeoutMode: timeoutMode, maxPending: maxPending, N: N, nEvents: nEvents, pageAt: pageAt, readTimeout: readTimeout, planPages: planPages})
	r.Nontrivial = accepted >= 2 && r.repoSwitches > 0
	if r.Spec.Trace {
		var lines []string
		for _, rec := range reqs {
			id := int16(-1)
			if rec.req != nil {
				id = rec.req.StreamId()
			}
			lines = append(lines, fmt.Sprintf("%s id=%d refused=%v got=%v", rec.tag, id, rec.sendErr != nil, rec.got))
		}
		r.Sample = map[string]interface{}{"requests": lines, "server_arrival_order": serverGot, "events": sentEvents}
	}
	_ = message.Ready{}
	_ = primitive.OpCodeReady
}

// c10Obs is what a routing session observed; c10Judge is the oracle over it (shared by the session
// against the library's own server connection and the one against the raw refwire server).
type c10Obs struct {
	reqs         []*c10Req
	sentPages    map[string][]string
	sentEvents   []string
	handlerSeen  [2][]string
	chanEvents   []string
	overflowMode bool
	timeoutMode  bool
	pageAt       map[string][]time.Time
	planPages    map[string]int
	readTimeout  time.Duration
	maxPending   int
	N            int
	nEvents      int
}

func c10Judge(r *Run, o *c10Obs) int {
	const P = "C10"
	reqs, sentPages, sentEvents, handlerSeen, chanEvents := o.reqs, o.sentPages, o.sentEvents, o.handlerSeen, o.chanEvents
	overflowMode, maxPending, N, nEvents := o.overflowMode, o.maxPending, o.N, o.nEvents
	accepted := 0
	overflowedTags := map[string]bool{}
	owner := map[string]string{} // page tag -> request tag that received it
	for _, rec := range reqs {
		if rec.req == nil {
			continue
		}
		accepted++
		want := sentPages[rec.tag]
		// no foreign page, exact sequence
		for _, g := range rec.got {
			if !strings.HasPrefix(g, rec.tag+"#") {
				r.Violate(P, "routing", "foreign-response", "request %s (stream %d) received %s, a response to another request", rec.tag, rec.req.StreamId(), g)
			}
			if prev, dup := owner[g]; dup {
				r.Violate(P, "routing", "delivered-twice", "response %s was delivered twice (to %s and %s)", g, prev, rec.tag)
			}
			owner[g] = rec.tag
		}
		overflowed := overflowMode && (rec.recvErr != nil || rec.errAtEnd != nil) && len(want) > maxPending
		timedOut := o.timeoutMode && (rec.recvErr != nil || rec.errAtEnd != nil)
		if timedOut {
			r.Probes["requests_timed_out"]++
			// a timeout is legitimate only after a silence of (nearly) the read timeout: between the send and
			// the first page, between two pages, or after the last page the peer sent. Links in this mode
			// have at most 1 ms latency; 50 ms of slack is allowed.
			if at := o.pageAt[rec.tag]; len(at) == len(want) && len(want) > 0 && !rec.sentAt.IsZero() && len(want) == o.planPages[rec.tag] {
				longest := at[0].Sub(rec.sentAt)
				for i := 1; i < len(at); i++ {
					if d := at[i].Sub(at[i-1]); d > longest {
						longest = d
					}
				}
				if longest < o.readTimeout-50*time.Millisecond && len(rec.got) < len(want) {
					r.Violate(P, "routing", "failed-while-pages-kept-arriving", "request %s failed (%v / %v) after receiving %d of %d pages although the peer never left a gap longer than %v (read timeout %v): the response was lost to a timeout that should have been re-armed by every page", rec.tag, rec.recvErr, rec.errAtEnd, len(rec.got), len(want), longest, o.readTimeout)
				}
			}
		}
		if overflowed || timedOut {
			// the request failed because more than MaxPending pages were waiting: what it did receive
			// must be pages of its own response, in order, each at most once (prefix checks above cover
			// foreign and duplicate pages)
			wi := 0
			for _, g := range rec.got {
				for wi < len(want) && want[wi] != g {
					wi++
				}
				if wi == len(want) {
					r.Violate(P, "routing", "pages-out-of-order", "request %s (failed: overflowed MaxPending=%d or timed out): received %v, peer sent %v", rec.tag, maxPending, rec.got, want)
					break
				}
				wi++
			}
			overflowedTags[rec.tag] = true
			r.Probes["requests_overflowed_max_pending"]++
			continue
		}
		if strings.Join(rec.got, ",") != strings.Join(want, ",") {
			cls := "pages-mismatch"
			if len(rec.got) < len(want) {
				cls = "response-lost"
			}
			r.Violate(P, "routing", cls, "request %s: peer sent %v, request received %v (recvErr=%v)", rec.tag, want, rec.got, rec.recvErr)
		} else if len(want) > 0 {
			// completed on the last page: channel closed, done, no error
			if rec.recvErr != nil || rec.errAtEnd != nil {
				r.Violate(P, "completion", "error-after-final", "request %s received all its pages but ended with error %v / Err()=%v", rec.tag, rec.recvErr, rec.errAtEnd)
			} else if !rec.closed || !rec.doneFlag {
				r.Violate(P, "completion", "not-completed", "request %s received its last page but closed=%v IsDone=%v", rec.tag, rec.closed, rec.doneFlag)
			}
		}
	}
	// every response sent must have been received by somebody
	for tag, pages := range sentPages {
		for _, pg := range pages {
			if _, ok := owner[pg]; !ok && !overflowedTags[tag] {
				r.Violate(P, "routing", "response-lost", "response %s for %s was sent by the peer but received by no request", pg, tag)
			}
		}
	}
	// spurious responses and events must never show up on a request
	for g, o := range owner {
		if strings.HasPrefix(g, "spurious") || strings.HasPrefix(g, "ev") {
			r.Violate(P, "routing", "spurious-delivered", "%s was delivered to request %s", g, o)
		}
	}
	// events: every handler sees every event exactly once; the event channel holds each event at most
	// once, all of them unless more were pushed than the queue can hold
	wantEv := append([]string{}, sentEvents...)
	sort.Strings(wantEv)
	check := func(name string, got []string, mayDrop bool) {
		g := append([]string{}, got...)
		sort.Strings(g)
		if !mayDrop {
			if strings.Join(g, ",") != strings.Join(wantEv, ",") {
				r.Violate(P, "events", "events-"+name, "events sent by the peer %v, seen by %s %v", wantEv, name, g)
			}
			return
		}
		seen := map[string]bool{}
		sentSet := map[string]bool{}
		for _, e := range wantEv {
			sentSet[e] = true
		}
		for _, e := range g {
			if seen[e] || !sentSet[e] {
				r.Violate(P, "events", "events-"+name, "event queue overflow: peer sent %v, %s holds %v (duplicate or foreign entry %s)", wantEv, name, g, e)
			}
			seen[e] = true
		}
		if len(g) < minInt(len(wantEv), N) {
			r.Violate(P, "events", "events-"+name, "event queue overflow: peer sent %d events, the queue holds %d of capacity %d", len(wantEv), len(g), N)
		}
	}
	check("channel", chanEvents, nEvents > N)
	check("handler", handlerSeen[0], false)
	check("handler", handlerSeen[1], false)
	return accepted
}

func mustAddr(s string) *net.TCPAddr {
	a, err := parseAddr(s)
	if err != nil {
		panic(err)
	}
	return a
}

// ---- "routeraw": the same routing property against a raw (refwire) server that also chooses the v5
// segmentation: several response envelopes in one segment, envelopes split over segments ----

func init() {
	Register(&Scenario{Name: "routeraw", Property: "C10", Body: c10RouteRaw})
	pd := props["C10"]
	prev := pd.Case
	pd.Case = func(w *Worker, i int) {
		prev(w, i)
		if i%3 == 0 {
			w.Exec(RunSpec{Scenario: "routeraw", Index: i})
		}
	}
}

func c10RouteRaw(r *Run) {
	const P = "C10"
	T := r.T
	v := r.DrawVersion()
	comp := r.DrawCompression(v)
	N := 1 + T.Draw("maxInFlight", 12)
	maxPending := 1 + T.Draw("maxPending", 4)
	K := 1 + T.Draw("senders", 6)
	M := 1 + T.Draw("requests", 4)
	nEvents := T.Draw("events", N+1)
	nSpurious := T.Draw("spurious", 3)
	opts := LinkOpts{
		Capacity:   []int{1 << 20, 256, 4096, 7}[T.DrawP("capacity", 4, 0.6)],
		Latency:    ms([]int{0, 1, 20}[T.Draw("latency", 3)]),
		ChunkReads: T.Bool("chunkReads", 0.5),
	}
	r.Config["version"] = v.String()
	r.Config["compression"] = string(comp)
	r.Config["maxInFlight"] = fmt.Sprint(N)
	r.Config["maxPending"] = fmt.Sprint(maxPending)
	r.Config["senders"] = fmt.Sprint(K)
	r.Config["requests"] = fmt.Sprint(M)
	r.Config["events"] = fmt.Sprint(nEvents)
	r.Config["peer"] = "raw refwire server"
	plans := map[string]c10Plan{}
	paceMs := map[string]int{}
	for i := 0; i < K; i++ {
		for j := 0; j < M; j++ {
			p := c10Plan{pages: 1}
			if v.IsDse() && T.Bool("paged", 0.5) {
				p.pages = 1 + T.Draw("pages", maxPending)
			}
			tag := fmt.Sprintf("q%d.%d", i, j)
			plans[tag] = p
			paceMs[tag] = T.DrawP("pacems", 40, 0.5)
		}
	}
	ctx, cancel := context.WithCancel(context.Background())
	a, b := r.Net.Pair("L", r.Net.NewClientAddr(), mustAddr("10.0.0.2:9042"), opts)
	peer := NewRawPeer(r, b, byte(v))
	obs := &c10Obs{sentPages: map[string][]string{}, maxPending: maxPending, N: N, nEvents: nEvents}
	mainDone, handshakeOK := false, false
	handlers := []client.EventHandler{
		func(ev *frame.Frame, _ *client.CqlClientConnection) { obs.handlerSeen[0] = append(obs.handlerSeen[0], eventTag(ev)) },
		func(ev *frame.Frame, _ *client.CqlClientConnection) { obs.handlerSeen[1] = append(obs.handlerSeen[1], eventTag(ev)) },
	}
	r.Go("main", func() {
		defer func() { mainDone = true }()
		cc, err := client.VerifNewClientConnection(a, ctx, nil, comp, N, maxPending, time.Hour, handlers)
		if err != nil {
			return
		}
		r.Cleanup(func() { _ = cc.Close(); cancel(); _ = b.Close() })
		hs := make(doneChan)
		var hsErr error
		r.Go("hsPeer", func() { defer close(hs); hsErr = peer.ServerHandshake(); r.Yield("hs.s") })
		err = cc.InitiateHandshake(v, client.ManagedStreamId)
		r.Yield("hs.c")
		<-hs
		r.Yield("hs.joined")
		if err != nil || hsErr != nil {
			r.Violate(P, "handshake", "failed:raw", "fault-free handshake with the raw server failed: %v / %v", err, hsErr)
			return
		}
		handshakeOK = true
		var pending []RFrame
		var pmu sync.Mutex
		cond := NewCond()
		readerDone, sendersDone := false, false
		var pwg sync.WaitGroup
		pwg.Add(2)
		r.Go("peer.read", func() {
			defer pwg.Done()
			defer func() { pmu.Lock(); readerDone = true; pmu.Unlock(); cond.Bump() }()
			for {
				f, err := peer.ReadFrame()
				r.Yield("peer.read")
				if err != nil {
					return
				}
				body, err := peer.DecodeBody(f)
				if err != nil {
					r.Violate(P, "wire", "raw-request-undecodable", "raw server cannot decode a request body: %v", err)
					return
				}
				f.Body = body
				pmu.Lock()
				pending = append(pending, f)
				pmu.Unlock()
				cond.Bump()
			}
		})
		evLeft, spLeft := nEvents, nSpurious
		answererDone := false
		r.Go("peer.answer", func() {
			defer pwg.Done()
			defer func() { answererDone = true }()
			for {
				cond.Wait(func() bool { pmu.Lock(); defer pmu.Unlock(); return len(pending) > 0 || sendersDone || readerDone })
				pmu.Lock()
				n, fin, ended := len(pending), sendersDone, readerDone
				pmu.Unlock()
				if n == 0 {
					if ended {
						return
					}
					if fin {
						var envs [][]byte
						for evLeft > 0 {
							evLeft--
							k := nEvents - evLeft
							envs = append(envs, peer.Envelope(true, 0, -1, ROpEvent, RBodyEventStatusChange(true, [4]byte{10, 1, byte(k >> 8), byte(k)}, 9042), false))
							obs.sentEvents = append(obs.sentEvents, fmt.Sprintf("ev%d", k))
						}
						if len(envs) > 0 {
							_ = peer.SendEnvelopes(envs)
						}
						cond.Wait(func() bool { pmu.Lock(); defer pmu.Unlock(); return len(pending) > 0 || readerDone })
						continue
					}
					continue
				}
				if d := T.DrawP("peer.hold", 30, 0.5); d > 0 {
					r.Sleep(ms(d))
				}
				// one batch: answers to 1..3 pending requests (drawn), plus maybe an event and a spurious
				// response, all handed to SendEnvelopes together so that they may share a segment
				var envs [][]byte
				var sentNow []string
				if evLeft > 0 && T.Bool("peer.event", 0.3) {
					evLeft--
					k := nEvents - evLeft
					envs = append(envs, peer.Envelope(true, 0, -1, ROpEvent, RBodyEventStatusChange(true, [4]byte{10, 1, byte(k >> 8), byte(k)}, 9042), false))
					obs.sentEvents = append(obs.sentEvents, fmt.Sprintf("ev%d", k))
				}
				if spLeft > 0 && T.Bool("peer.spurious", 0.3) {
					spLeft--
					spId := int16(20000 + spLeft)
					if v == primitive.ProtocolVersion2 {
						spId = int16(100 + spLeft)
					}
					envs = append(envs, peer.Envelope(true, 0, spId, ROpResult, RBodyResultRows(1, [][][]byte{{[]byte(fmt.Sprintf("spurious%d#0", spLeft))}}, 0, false), false))
					r.Probes["spurious_sent"]++
				}
				batch := 1 + T.Draw("peer.batch", 3)
				for b := 0; b < batch; b++ {
					pmu.Lock()
					if len(pending) == 0 {
						pmu.Unlock()
						break
					}
					k := T.Draw("peer.pick", len(pending))
					f := pending[k]
					pending = append(pending[:k], pending[k+1:]...)
					pmu.Unlock()
					if k > 0 {
						r.Probes["answered_out_of_order"]++
					}
					q, _ := RParseQuery(f.Body)
					tag := q
					p := plans[tag]
					for pg := 0; pg < p.pages; pg++ {
						cell := []byte(fmt.Sprintf("%s#%d", tag, pg))
						var body []byte
						if p.pages > 1 {
							body = RBodyResultRows(1, [][][]byte{{cell}}, int32(pg+1), pg == p.pages-1)
						} else {
							body = RBodyResultRows(1, [][][]byte{{cell}}, 0, false)
						}
						envs = append(envs, peer.Envelope(true, 0, f.H.Stream, ROpResult, body, T.Bool("rawcompress", 0.3)))
						sentNow = append(sentNow, tag+"|"+string(cell))
					}
					if p.pages > 1 {
						r.Probes["multi_page_responses"]++
					}
				}
				if err := peer.SendEnvelopes(envs); err != nil {
					return
				}
				for _, sn := range sentNow {
					parts := strings.SplitN(sn, "|", 2)
					obs.sentPages[parts[0]] = append(obs.sentPages[parts[0]], parts[1])
				}
				r.Yield("peer.sent")
			}
		})
		var wg sync.WaitGroup
		for i := 0; i < K; i++ {
			i := i
			wg.Add(1)
			r.Go(fmt.Sprintf("sender%d", i), func() {
				defer wg.Done()
				for j := 0; j < M; j++ {
					rec := &c10Req{tag: fmt.Sprintf("q%d.%d", i, j)}
					obs.reqs = append(obs.reqs, rec)
					rec.req, rec.sendErr = cc.Send(queryFrame(v, client.ManagedStreamId, rec.tag))
					r.Yield("sender.sent")
					if rec.sendErr != nil || rec.req == nil {
						r.Probes["send_refused"]++
						continue
					}
					for {
						if d := paceMs[rec.tag]; d > 0 {
							r.Sleep(ms(d))
						}
						fr, err := cc.Receive(rec.req)
						r.Yield("sender.recv")
						if err != nil {
							rec.recvErr = err
							break
						}
						if fr == nil {
							rec.closed = true
							break
						}
						rec.got = append(rec.got, pageTag(fr))
					}
					rec.doneFlag = rec.req.IsDone()
					rec.errAtEnd = rec.req.Err()
					r.Yield("sender.checked")
				}
			})
		}
		wg.Wait()
		r.Yield("senders.joined")
		pmu.Lock()
		sendersDone = true
		pmu.Unlock()
		cond.Bump()
		for k := 0; k < 600; k++ {
			r.Sleep(200 * time.Millisecond)
			if len(obs.handlerSeen[0]) >= nEvents {
				break
			}
		}
		r.Sleep(200 * time.Millisecond)
		evc := cc.EventChannel()
	drain:
		for {
			select {
			case ev, ok := <-evc:
				if !ok {
					break drain
				}
				obs.chanEvents = append(obs.chanEvents, eventTag(ev))
			default:
				break drain
			}
		}
		_ = cc.Close()
		r.Yield("closed.client")
		pwg.Wait()
		r.Yield("peer.joined")
		_ = answererDone
	})
	if !r.Drive() {
		r.Violate(P, "liveness", "step-budget", "run did not quiesce within %d steps", r.StepBudget)
		return
	}
	for k, v := range peer.SegStats {
		r.Probes[k] += v
	}
	if !mainDone {
		if handshakeOK {
			r.Violate(P, "liveness", "stuck:raw", "fault-free run against the raw server did not finish: a sender, the peer or Close is blocked at quiescence")
		}
		return
	}
	if !handshakeOK {
		return
	}
	accepted := c10Judge(r, obs)
	r.Nontrivial = accepted >= 2 && r.repoSwitches > 0
}
