package sim

import "testing"

// TestWorker is the entry point of worker processes started by vcheck (VERIF_JOB names the job file).
func TestWorker(t *testing.T) { RunWorker(t) }
