package sim

import (
	"fmt"
	"math/bits"
	"sort"

	"github.com/datastax/go-cassandra-native-protocol/crc"
)

// c07PayloadScan: syndrome scan of payload + CRC-32 for LARGE payloads, where the space of pairs of
// flips (5*10^11 for a full segment) cannot be walked through the decoder.
//
// For a payload d as transmitted, the library's own checksum function (crc/crc32.go, the function
// decodeSegmentPayload compares against) is evaluated once per data bit: syn(i) = crc(d^e_i)^crc(d).
// The four trailer bytes are compared for equality with the computed value, so trailer bit k has the
// unit syndrome 1<<k. An alteration F of data and trailer bits is accepted by an XOR-affine checksum
// iff the XOR of the syndromes of its bits is zero; hence
//   - a zero syndrome            = an undetected single flip,
//   - two equal syndromes        = an undetected pair of flips,
//   - a bit whose syndrome lies in the span of the following 31 = an undetected burst of <= 32 bits.
//
// Every such CANDIDATE is then presented to the real DecodeSegment (the "direct" scenario), which
// alone decides; the affinity assumption only enters the coverage claim, and is itself sampled.
// One scan covers every single flip, every pair and every burst pattern of one (size, payload).
func c07PayloadScan(w *Worker, lz4On, size, kind, pseed int) {
	base := map[string]int{"lz4": lz4On, "size": size, "kind": kind, "pseed": pseed, "self": size & 1, "region": 1}
	seg, err := c07SegFromParams(base)
	if err != nil {
		return
	}
	hdrBytes := seg.hdrBits / 8
	body := seg.wire[hdrBytes:]
	n := len(body) - 4 // bytes of payload as transmitted
	if n <= 0 {
		return
	}
	data := append([]byte(nil), body[:n]...)
	ref := crc.ChecksumIEEE(data)
	total := n*8 + 32
	syn := make([]uint32, total)
	for i := 0; i < n*8; i++ {
		data[i/8] ^= 1 << uint(i%8)
		syn[i] = crc.ChecksumIEEE(data) ^ ref
		data[i/8] ^= 1 << uint(i%8)
		if i&0xffff == 0 && w.expired() {
			return
		}
	}
	for k := 0; k < 32; k++ {
		syn[n*8+k] = 1 << uint(k)
	}
	w.Out.Counters["payload_scan_syndromes"] += total
	report := func(p map[string]int) {
		q := map[string]int{}
		for k, v := range base {
			q[k] = v
		}
		for k, v := range p {
			q[k] = v
		}
		w.Out.Counters["payload_scan_candidates"]++
		res := w.Exec(RunSpec{Scenario: "direct", Index: 0, Params: q})
		debugf("C07 payload scan candidate %v: %d violations", q, len(res.Violations))
	}
	// affinity, sampled: the syndrome of a pair is the XOR of the two syndromes
	ps := Mix(w.Job.Seed, "C07/scan", size)
	nonAffine := 0
	for s := 0; s < 64; s++ {
		i, j := int(splitmix(&ps)%uint64(n*8)), int(splitmix(&ps)%uint64(n*8))
		if i == j {
			continue
		}
		data[i/8] ^= 1 << uint(i%8)
		data[j/8] ^= 1 << uint(j%8)
		if crc.ChecksumIEEE(data)^ref != syn[i]^syn[j] {
			nonAffine++
		}
		data[i/8] ^= 1 << uint(i%8)
		data[j/8] ^= 1 << uint(j%8)
	}
	if nonAffine > 0 {
		w.Out.Counters["payload_scan_not_affine"]++
	}
	// singles
	for i, s := range syn {
		if s == 0 {
			report(map[string]int{"bit1": i, "bit2": -1})
		}
	}
	// pairs
	idx := make([]int32, total)
	for i := range idx {
		idx[i] = int32(i)
	}
	sort.Slice(idx, func(a, b int) bool {
		if syn[idx[a]] != syn[idx[b]] {
			return syn[idx[a]] < syn[idx[b]]
		}
		return idx[a] < idx[b]
	})
	reported := 0
	for a := 1; a < total && reported < 8; a++ {
		if syn[idx[a]] == syn[idx[a-1]] {
			report(map[string]int{"bit1": int(idx[a-1]), "bit2": int(idx[a])})
			reported++
		}
	}
	// bursts: is syn[b] in the span of syn[b+1 .. b+31]?
	reported = 0
	for b := 0; b < total-1 && reported < 8; b++ {
		var bv, bc [32]uint32 // basis vector with leading bit k, and the window members it combines
		end := b + 32
		if end > total {
			end = total
		}
		for j := b + 1; j < end; j++ {
			v, c := syn[j], uint32(1)<<uint(j-b)
			for v != 0 {
				k := 31 - bits.LeadingZeros32(v)
				if bv[k] == 0 {
					bv[k], bc[k] = v, c
					break
				}
				v ^= bv[k]
				c ^= bc[k]
			}
		}
		v, c := syn[b], uint32(1)
		for v != 0 {
			k := 31 - bits.LeadingZeros32(v)
			if bv[k] == 0 {
				break
			}
			v ^= bv[k]
			c ^= bc[k]
		}
		if v == 0 && bits.OnesCount32(c) > 2 { // weights 1 and 2 are the singles and pairs above
			report(map[string]int{"burst_len": 32 - bits.LeadingZeros32(c), "burst_off": b, "burst_mask": int(c)})
			reported++
		}
	}
	w.Out.Counters["payload_scan_payloads"]++
	w.Out.Exhaustive[fmt.Sprintf("payload_scan_lz4=%d_size=%d", lz4On, size)] = fmt.Sprintf("every single flip, every pair of flips and every burst of up to 32 bits over the %d bits of payload+CRC32 (syndromes from the library's checksum function, candidates confirmed by DecodeSegment)", total)
}

// c07ScanSizes: sizes scanned by one shard. The first shards take the boundary sizes, the others seeded ones.
func c07ScanSizes(w *Worker) []int {
	special := []int{131071, 65537, 65536, 131070, 99999, 32769, 4097, 16385}
	ps := Mix(w.Job.Seed, "C07/scansizes", w.Job.Shard)
	draw := func() int {
		switch splitmix(&ps) % 3 {
		case 0:
			return 4097 + int(splitmix(&ps)%(131071-4097+1))
		case 1:
			return 1<<(12+splitmix(&ps)%5) + int(splitmix(&ps)%5) - 2
		}
		return 131071 - int(splitmix(&ps)%3000)
	}
	var out []int
	if w.Job.Shard < len(special) {
		out = append(out, special[w.Job.Shard])
	} else {
		out = append(out, draw())
	}
	if w.Job.Tier == "thorough" {
		for i := 0; i < 5; i++ {
			out = append(out, draw())
		}
	}
	return out
}
