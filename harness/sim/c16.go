package sim

import (
	"context"
	"fmt"
	"strings"
	"sync"
	"time"

	"github.com/datastax/go-cassandra-native-protocol/client"
	"github.com/datastax/go-cassandra-native-protocol/frame"
	"github.com/datastax/go-cassandra-native-protocol/message"
	"github.com/datastax/go-cassandra-native-protocol/primitive"
	"verif/simrt"
)

// C16 — connections terminate cleanly on close, peer loss and timeout (DESIGN.md §5 C16).

func init() {
	Register(&Scenario{Name: "term", Property: "C16", Body: c16Term})
}

// Fault kinds of the term scenario (Params["fault"]).
var c16Faults = []string{
	"none", "client_close", "srvconn_close", "server_close", "client_ctx_cancel", "server_ctx_cancel",
	"rst", "fin_to_client", "fin_to_server", "client_werr", "server_werr", "stall_client", "double_close",
	"client_rerr", "server_rerr",
}

type c16Req struct {
	tag      string
	req      client.InFlightRequest
	sendErr  error
	recvErr  error
	pages    int
	gotFinal bool
	sentAt   time.Duration
	endAt    time.Duration
	sender   int
}

type c16Task struct {
	name   string
	inCall string
	done   bool
	sim    *simrt.Task
}

// stuckAt names the repository function in which the task is stuck (stable class discriminator).
func (t *c16Task) stuckAt() string {
	if t.sim != nil && !strings.HasPrefix(t.sim.At, "h:") && t.sim.At != "spawn" {
		return SiteFunc(t.sim.At)
	}
	return t.inCall
}

type c16State struct {
	r       *Run
	v       primitive.ProtocolVersion
	server  *client.CqlServer
	cc      *client.CqlClientConnection
	sc      *client.CqlServerConnection
	cliCtx  context.Context
	cliStop context.CancelFunc
	srvCtx  context.Context
	srvStop context.CancelFunc
	reqs    []*c16Req
	tasks   []*c16Task
	T       time.Duration
	mu      sync.Mutex
}

func (st *c16State) task(name string) *c16Task {
	t := &c16Task{name: name}
	st.tasks = append(st.tasks, t)
	return t
}

// call brackets a library call so that a task stuck inside it can be named at quiescence.
func (t *c16Task) call(r *Run, name string, f func()) {
	if t.sim == nil {
		t.sim = simrt.CurrentTask()
	}
	t.inCall = name
	f()
	r.Yield("ret:" + name)
	t.inCall = ""
}

func c16Term(r *Run) {
	const P = "C16"
	r.InstallNetSeams()
	st := &c16State{r: r}
	T := r.T
	st.v = r.DrawVersion()
	auth := T.Bool("auth", 0.3)
	N := 1 + T.Draw("maxInFlight", 8)
	maxPending := 1 + T.Draw("maxPending", 4)
	st.T = []time.Duration{12 * time.Second, 2 * time.Second}[T.Draw("readTimeout", 2)]
	idle := []time.Duration{time.Hour, 30 * time.Second}[T.Draw("idleTimeout", 2)]
	K := 1 + T.Draw("senders", 3)
	M := T.Draw("requests", 4)
	handlerMode := T.Bool("handlerMode", 0.3)
	respMode := T.Draw("respMode", 4) // 0 immediate, 1 short delay, 2 some never answered, 3 delay around T
	usePerformHandshake := !handlerMode && T.Bool("performHandshake", 0.25) // the library's own two-goroutine helper
	compression := r.DrawCompression(st.v)
	opts := LinkOpts{
		Capacity:   []int{1 << 20, 64, 4096, 1}[T.DrawP("capacity", 4, 0.6)],
		Latency:    ms([]int{0, 1, 20}[T.Draw("latency", 3)]),
		ChunkReads: T.Bool("chunkReads", 0.5),
	}
	fault := "none"
	crashStep := -1
	if s, ok := r.Spec.Params["crash_step"]; ok && s >= 0 {
		crashStep = s
		fault = c16Faults[r.Spec.Params["fault"]%len(c16Faults)]
	}
	fault2, crashStep2 := "none", -1
	if s, ok := r.Spec.Params["crash_step2"]; ok && s >= 0 {
		crashStep2 = s
		fault2 = c16Faults[r.Spec.Params["fault2"]%len(c16Faults)]
	}
	r.Config["version"] = st.v.String()
	r.Config["auth"] = fmt.Sprint(auth)
	r.Config["maxInFlight"] = fmt.Sprint(N)
	r.Config["maxPending"] = fmt.Sprint(maxPending)
	r.Config["readTimeout"] = st.T.String()
	r.Config["idleTimeout"] = idle.String()
	r.Config["senders"] = fmt.Sprint(K)
	r.Config["requests"] = fmt.Sprint(M)
	r.Config["handlerMode"] = fmt.Sprint(handlerMode)
	r.Config["performHandshake"] = fmt.Sprint(usePerformHandshake)
	r.Config["respMode"] = fmt.Sprint(respMode)
	r.Config["compression"] = string(compression)
	r.Config["fault"] = fmt.Sprintf("%s@%d", fault, crashStep)
	if crashStep2 >= 0 {
		r.Config["fault2"] = fmt.Sprintf("%s@%d", fault2, crashStep2)
	}
	r.listenOpts = map[string]LinkOpts{"10.0.0.2:9042": opts}

	var creds *client.AuthCredentials
	if auth {
		creds = &client.AuthCredentials{Username: "u", Password: "p"}
	}
	st.cliCtx, st.cliStop = context.WithCancel(context.Background())
	st.srvCtx, st.srvStop = context.WithCancel(context.Background())

	// pre-drawn per-request response plans so that plans do not depend on arrival order
	type plan struct {
		pages int
		delay time.Duration
		gap   time.Duration
		never bool
		event bool
	}
	plans := map[string]plan{}
	for i := 0; i < K; i++ {
		for j := 0; j < M; j++ {
			p := plan{pages: 1}
			if st.v.IsDse() && T.Bool("paged", 0.4) {
				p.pages = 1 + T.Draw("pages", maxPending+1)
				p.gap = time.Duration(T.Draw("gap10", 13)) * st.T / 10 // 0 .. 1.2 T
			}
			switch respMode {
			case 1:
				p.delay = ms(1 + T.Draw("delayms", 50))
			case 2:
				p.never = T.Bool("never", 0.4)
			case 3:
				p.delay = st.T + time.Duration(T.Draw("around", 5)-2)*time.Millisecond
			}
			p.event = T.Bool("event", 0.15)
			plans[fmt.Sprintf("q%d.%d", i, j)] = p
		}
	}
	evCount := 0
	respond := func(send func(*frame.Frame) error, req *frame.Frame) {
		tag := queryTag(req)
		p, ok := plans[tag]
		if !ok || p.never {
			return
		}
		if p.delay > 0 {
			r.Sleep(p.delay)
		}
		if p.event {
			evCount++
			_ = send(eventFrame(st.v, evCount))
			r.Yield("resp.event")
		}
		for k := 0; k < p.pages; k++ {
			if k > 0 && p.gap > 0 {
				r.Sleep(p.gap)
			}
			if err := send(pageFrame(st.v, req.Header.StreamId, tag, k, p.pages)); err != nil {
				r.Yield("resp.senderr")
				return
			}
			r.Yield("resp.sent")
		}
	}

	mainT := st.task("main")
	postCloseSendAccepted := false
	var wg sync.WaitGroup
	r.Go("main", func() {
		defer func() { mainT.done = true }()
		srv := client.NewCqlServer("10.0.0.2:9042", creds)
		srv.MaxInFlight = N + 2
		srv.IdleTimeout = idle
		if handlerMode {
			srv.RequestHandlers = []client.RequestHandler{client.HandshakeHandler,
				func(request *frame.Frame, conn *client.CqlServerConnection, _ client.RequestHandlerContext) *frame.Frame {
					if _, ok := request.Body.Message.(*message.Query); ok {
						respond(conn.Send, request)
					}
					return nil
				}}
		}
		var err error
		mainT.call(r, "Server.Start", func() { err = srv.Start(st.srvCtx) })
		st.server = srv
		if err != nil {
			r.Event("server start failed: %v", err)
			return
		}
		cl := client.NewCqlClient("10.0.0.2:9042", creds)
		cl.Compression = compression
		cl.MaxInFlight = N
		cl.MaxPending = maxPending
		cl.ReadTimeout = st.T
		var cc *client.CqlClientConnection
		mainT.call(r, "Client.Connect", func() { cc, err = cl.Connect(st.cliCtx) })
		if err != nil {
			r.Event("connect failed")
		} else {
			st.cc = cc
			var sc *client.CqlServerConnection
			mainT.call(r, "Server.Accept", func() { sc, err = srv.Accept(cc) })
			if err != nil {
				r.Event("accept failed")
			} else {
				st.sc = sc
			}
		}
		hsOK := false
		if st.cc != nil && st.sc != nil && usePerformHandshake {
			mainT.call(r, "PerformHandshake", func() { err = client.PerformHandshake(st.cc, st.sc, st.v, client.ManagedStreamId) })
			hsOK = err == nil
			r.Event("handshake (PerformHandshake) ok=%v", hsOK)
		} else if st.cc != nil {
			hsDone := make(doneChan)
			if st.sc != nil && !handlerMode {
				hsT := st.task("hsServer")
				r.Go("hsServer", func() {
					defer func() { hsT.done = true; close(hsDone) }()
					hsT.call(r, "AcceptHandshake", func() { _ = st.sc.AcceptHandshake() })
				})
			} else {
				close(hsDone)
			}
			mainT.call(r, "InitiateHandshake", func() { err = st.cc.InitiateHandshake(st.v, client.ManagedStreamId) })
			hsOK = err == nil
			r.Event("handshake ok=%v", hsOK)
			mainT.inCall = "wait hsServer"
			<-hsDone
			r.Yield("hs.joined")
			mainT.inCall = ""
		}
		if st.cc != nil && hsOK {
			// event receiver
			evT := st.task("eventReceiver")
			wg.Add(1)
			r.Go("eventReceiver", func() {
				defer func() { evT.done = true; wg.Done() }()
				for {
					var err error
					evT.call(r, "ReceiveEvent", func() { _, err = st.cc.ReceiveEvent() })
					if err != nil {
						return
					}
				}
			})
			// responder (manual mode)
			if st.sc != nil && !handlerMode {
				rsT := st.task("responder")
				wg.Add(1)
				r.Go("responder", func() {
					defer func() { rsT.done = true; wg.Done() }()
					for {
						var f *frame.Frame
						var err error
						rsT.call(r, "Server.Receive", func() { f, err = st.sc.Receive() })
						if err != nil {
							return
						}
						if f == nil {
							r.Violate(P, "api", "server-receive-nil", "CqlServerConnection.Receive returned (nil, nil)")
							return
						}
						ff := f
						// answer in its own task so that slow answers do not hold up later ones
						wg.Add(1)
						r.Go("answer", func() {
							defer wg.Done()
							respond(st.sc.Send, ff)
						})
					}
				})
			}
			for i := 0; i < K; i++ {
				i := i
				sT := st.task(fmt.Sprintf("sender%d", i))
				wg.Add(1)
				r.Go(sT.name, func() {
					defer func() { sT.done = true; wg.Done() }()
					for j := 0; j < M; j++ {
						rec := &c16Req{tag: fmt.Sprintf("q%d.%d", i, j), sender: i}
						st.reqs = append(st.reqs, rec)
						f := queryFrame(st.v, client.ManagedStreamId, rec.tag)
						sT.call(r, "Send", func() { rec.req, rec.sendErr = st.cc.Send(f) })
						rec.sentAt = r.Now()
						if rec.sendErr != nil || rec.req == nil {
							r.Event("%s refused", rec.tag)
							continue
						}
						r.Event("%s sent id=%d", rec.tag, rec.req.StreamId())
						for {
							var fr *frame.Frame
							var err error
							sT.call(r, "Receive", func() { fr, err = st.cc.Receive(rec.req) })
							if err != nil {
								rec.recvErr = err
								rec.endAt = r.Now()
								r.Event("%s failed", rec.tag)
								break
							}
							if fr == nil {
								rec.endAt = r.Now()
								break
							}
							rec.pages++
							if isFinal(fr) {
								rec.gotFinal = true
							}
							r.Event("%s page %s", rec.tag, pageTag(fr))
						}
					}
				})
			}
		}
		mainT.inCall = "wait workers"
		wg.Wait()
		r.Yield("workers.joined")
		mainT.inCall = ""
		// orderly shutdown; every Close must return, and a Send after Close must be refused
		if st.cc != nil {
			mainT.call(r, "Client.Close", func() { _ = st.cc.Close() })
			var req client.InFlightRequest
			mainT.call(r, "Send-after-close", func() {
				req, err = st.cc.Send(queryFrame(st.v, client.ManagedStreamId, "late"))
			})
			if err == nil {
				postCloseSendAccepted = true
				_ = req
			}
		}
		if st.sc != nil {
			mainT.call(r, "ServerConn.Close", func() { _ = st.sc.Close() })
			mainT.call(r, "ServerConn.Send-after-close", func() {
				err = st.sc.Send(pageFrame(st.v, 1, "late", 0, 1))
			})
			if err == nil {
				r.Violate(P, "send-after-close", "server", "CqlServerConnection.Send accepted a frame after Close returned")
			}
		}
		mainT.call(r, "Server.Close", func() { _ = srv.Close() })
		st.cliStop()
		st.srvStop()
	})

	st.installFault(fault, crashStep)
	st.installFault(fault2, crashStep2)

	ok := r.Drive()
	r.Nontrivial = r.repoSwitches > 0 && len(st.reqs) > 0
	if !ok {
		r.Violate(P, "liveness", "step-budget", "run did not quiesce within %d steps", r.StepBudget)
		return
	}
	if postCloseSendAccepted {
		r.Violate(P, "send-after-close", "client", "CqlClientConnection.Send accepted a frame after Close returned")
	}
	// blocked harness tasks: some library call did not return
	nBlocked := 0
	for _, t := range st.tasks {
		if !t.done && !strings.HasPrefix(t.inCall, "wait ") {
			nBlocked++
		}
	}
	for _, t := range st.tasks {
		if !t.done {
			if strings.HasPrefix(t.inCall, "wait ") && nBlocked > 0 {
				continue // derivative of another blocked task
			}
			r.Violate(P, "returns", "blocked:"+t.stuckAt(), "task %s is still blocked in %q (last seen at %s) at quiescence (fault %s@%d)", t.name, t.inCall, t.stuckAt(), fault, crashStep)
		}
	}
	// every request must be complete; evaluated by a checker task because the accessors take locks
	type reqCheck struct{ isDone, closed, hasErr, final bool }
	checks := make([]reqCheck, len(st.reqs))
	checked := false
	r.Go("oracle", func() {
		for i, rec := range st.reqs {
			if rec.req == nil {
				continue
			}
			c := &checks[i]
			c.final = rec.gotFinal
			ch := rec.req.Incoming()
		drain:
			for {
				select {
				case f, ok := <-ch:
					if !ok {
						c.closed = true
						break drain
					}
					if isFinal(f) {
						c.final = true
					}
				default:
					break drain
				}
			}
			c.isDone = rec.req.IsDone()
			c.hasErr = rec.req.Err() != nil
			r.Yield("oracle.req")
		}
		checked = true
	})
	r.Drive()
	if !checked {
		r.Violate(P, "request-complete", "accessor-blocked", "IsDone/Err/Incoming of an in-flight request did not return at quiescence")
	} else {
		for i, rec := range st.reqs {
			if rec.req == nil {
				continue
			}
			c := checks[i]
			switch {
			case !c.closed:
				r.Violate(P, "request-complete", "channel-open", "request %s (stream %d): Incoming() is not closed at quiescence (IsDone=%v Err!=nil:%v final=%v, fault %s@%d)", rec.tag, rec.req.StreamId(), c.isDone, c.hasErr, c.final, fault, crashStep)
			case !c.isDone:
				r.Violate(P, "request-complete", "closed-not-done", "request %s: channel closed but IsDone()==false", rec.tag)
			case !c.final && !c.hasErr:
				r.Violate(P, "request-complete", "closed-nil-err", "request %s: channel closed without the final response and Err()==nil", rec.tag)
			}
		}
	}
	// goroutine leaks: once every Close has returned (all harness tasks done), tasks spawned by
	// repository code must all be gone. If a harness task is stuck the leak would only be a
	// consequence of that (already reported) failure.
	allDone := true
	for _, t := range st.tasks {
		if !t.done {
			allDone = false
		}
	}
	for _, t := range r.S.Live() {
		if t.Repo && allDone {
			r.Violate(P, "no-leak", fmt.Sprintf("leak:%s@%s", SiteFunc(t.Spawn), SiteFunc(t.At)),
				"goroutine spawned at %s is still alive at quiescence, last seen at %s (state %d)", t.Spawn, t.At, t.State)
		}
	}
	if r.Spec.Trace {
		var sb strings.Builder
		for _, rec := range st.reqs {
			fmt.Fprintf(&sb, "%s sendErr=%v pages=%d final=%v recvErr=%v; ", rec.tag, rec.sendErr != nil, rec.pages, rec.gotFinal, rec.recvErr != nil)
		}
		r.Sample = map[string]interface{}{"config": r.Config, "requests": sb.String()}
	}
}

func isFinal(f *frame.Frame) bool {
	if f == nil || f.Body == nil {
		return false
	}
	if rows, ok := f.Body.Message.(*message.RowsResult); ok && rows.Metadata != nil && rows.Metadata.ContinuousPageNumber > 0 {
		return rows.Metadata.LastContinuousPage
	}
	return true
}

func (st *c16State) installFault(kind string, step int) {
	if kind == "none" || step < 0 {
		return
	}
	r := st.r
	clientEnd := func() *Conn {
		if l := r.Net.ListenerAt("10.0.0.2:9042"); l != nil && len(l.Clients) > 0 {
			return l.Clients[0]
		}
		return nil
	}
	serverEnd := func() *Conn {
		if l := r.Net.ListenerAt("10.0.0.2:9042"); l != nil && len(l.Conns) > 0 {
			return l.Conns[0]
		}
		return nil
	}
	r.OnStep(func(now int) bool {
		if now < step {
			return false
		}
		switch kind {
		case "client_close", "double_close":
			if st.cc == nil {
				return false
			}
			n := 1
			if kind == "double_close" {
				n = 2
			}
			for i := 0; i < n; i++ {
				t := st.task("closer")
				r.Go("closer", func() {
					defer func() { t.done = true }()
					t.call(r, "Client.Close", func() { _ = st.cc.Close() })
				})
			}
		case "srvconn_close":
			if st.sc == nil {
				return false
			}
			t := st.task("closer")
			r.Go("closer", func() {
				defer func() { t.done = true }()
				t.call(r, "ServerConn.Close", func() { _ = st.sc.Close() })
			})
		case "server_close":
			if st.server == nil {
				return false
			}
			t := st.task("closer")
			r.Go("closer", func() {
				defer func() { t.done = true }()
				t.call(r, "Server.Close", func() { _ = st.server.Close() })
			})
		case "client_ctx_cancel":
			st.cliStop()
		case "server_ctx_cancel":
			st.srvStop()
		case "rst":
			c := clientEnd()
			if c == nil {
				return false
			}
			c.Rst()
		case "fin_to_client":
			c := clientEnd()
			if c == nil {
				return false
			}
			c.FinFromPeer()
		case "fin_to_server":
			c := serverEnd()
			if c == nil {
				return false
			}
			c.FinFromPeer()
		case "client_werr":
			c := clientEnd()
			if c == nil {
				return false
			}
			c.WriteErrAfter(step % 23)
		case "server_werr":
			c := serverEnd()
			if c == nil {
				return false
			}
			c.WriteErrAfter(step % 23)
		case "client_rerr":
			c := clientEnd()
			if c == nil {
				return false
			}
			c.ReadErrAfter(step % 23)
		case "server_rerr":
			c := serverEnd()
			if c == nil {
				return false
			}
			c.ReadErrAfter(step % 23)
		case "stall_client":
			c := clientEnd()
			if c == nil {
				return false
			}
			c.StallIncoming(st.T + st.T/2)
		}
		r.Fault(kind)
		return true
	})
}

func init() {
	props["C16"] = &propDef{Case: c16Case, Extra: c16Enumerate}
}

// c16Enumerate (thorough tier): for a handful of fixed sessions, EVERY scheduler step boundary x
// EVERY fault kind is injected (sharded over the workers). The sessions are fixed by their case
// index, so the enumerated space is the same for every VERIF_SEED-independent part of the evidence.
func c16Enumerate(w *Worker) {
	if w.Job.Tier != "thorough" || w.Job.NShards <= 0 {
		return
	}
	sessions := []int{900001, 900002, 900003, 900004, 900005, 900006}
	for _, idx := range sessions {
		if w.expired() {
			return
		}
		base := RunSpec{Scenario: "term", Index: idx}
		res := Execute(w.t, RunSpec{Property: "C16", Scenario: "term", Seed: w.Job.Seed, Index: idx, Tier: w.Job.Tier})
		if res.Steps < 2 || res.BubblePanic != "" {
			continue
		}
		n := 0
		for step := 1; step <= res.Steps; step++ {
			for f := 1; f < len(c16Faults); f++ {
				n++
				if n%w.Job.NShards != w.Job.Shard {
					continue
				}
				if w.expired() {
					return
				}
				spec := base
				spec.Params = map[string]int{"crash_step": step, "fault": f}
				w.Exec(spec)
				w.Out.Counters["enumerated_step_x_fault_runs"]++
			}
		}
		if w.Job.Shard == 0 {
			w.Out.Exhaustive[fmt.Sprintf("session_%d", idx)] = fmt.Sprintf("every step boundary 1..%d x every fault kind (%d) = %d runs, split over %d workers", res.Steps, len(c16Faults)-1, n, w.Job.NShards)
		}
	}
}

// c16Case: one fault-free session, then the same session (same seed, hence the same schedule up to
// the crash point) with one or two crash points placed at drawn step numbers inside it.
func c16Case(w *Worker, i int) {
	if i%4 == 3 {
		w.Exec(RunSpec{Scenario: "timeout", Index: i})
	}
	if i%4 == 1 {
		mb := RunSpec{Scenario: "multi", Index: i}
		mres := w.Exec(mb)
		if mres.Steps > 2 && mres.BubblePanic == "" {
			ms := Mix(w.Job.Seed, "C16/multi", i)
			for k := 0; k < 2; k++ {
				spec := mb
				spec.Params = map[string]int{"crash_step": 1 + int(splitmix(&ms)%uint64(mres.Steps)), "fault": 1 + int(splitmix(&ms)%uint64(len(c16MultiFaults)-1)), "victim": int(splitmix(&ms) % 4)}
				w.Exec(spec)
			}
		}
	}
	base := RunSpec{Scenario: "term", Index: i}
	res := w.Exec(base)
	if res.Steps < 2 || res.BubblePanic != "" {
		return
	}
	ps := Mix(w.Job.Seed, "C16/params", i)
	next := func(n int) int { return int(splitmix(&ps) % uint64(n)) }
	nInject := 2
	if w.Job.Tier == "thorough" {
		nInject = 4
	}
	for k := 0; k < nInject; k++ {
		spec := base
		spec.Params = map[string]int{"crash_step": 1 + next(res.Steps), "fault": 1 + next(len(c16Faults)-1)}
		if next(6) == 0 {
			spec.Params["crash_step2"] = 1 + next(res.Steps)
			spec.Params["fault2"] = 1 + next(len(c16Faults)-1)
		}
		w.Exec(spec)
	}
}

// ---- timeout clause: "a request whose response never arrives fails with a timeout error after the
// read timeout of silence, and not earlier while pages of its response keep arriving" ----

func init() {
	Register(&Scenario{Name: "timeout", Property: "C16", Body: c16Timeout})
}

func c16Timeout(r *Run) {
	const P = "C16"
	T := r.T
	v := []primitive.ProtocolVersion{primitive.ProtocolVersionDse2, primitive.ProtocolVersionDse1, primitive.ProtocolVersion4, primitive.ProtocolVersion5}[T.Draw("version", 4)]
	RT := []time.Duration{12 * time.Second, 2 * time.Second, 500 * time.Millisecond}[T.Draw("readTimeout", 3)]
	// 0 silence, 1 pages with gaps < RT then silence, 2 response just before RT, 3 response just after RT,
	// 4 the peer stops READING after the handshake while the client has more to send than the link holds:
	//   the writes block, and every request (the one being written and those queued behind it) still has to
	//   fail with a timeout error one read timeout after it was sent
	mode := T.Draw("mode", 5)
	if !v.IsDse() && mode == 1 {
		mode = 0
	}
	lat := ms([]int{0, 3}[T.Draw("latency", 2)])
	opts := LinkOpts{Latency: lat, ChunkReads: T.Bool("chunkReads", 0.5)}
	if mode == 4 {
		opts.Capacity = 256
	}
	pages := 2 + T.Draw("pages", 4)
	gap := time.Duration(3+T.Draw("gap10", 6)) * RT / 10 // 0.3 .. 0.8 RT
	eps := time.Millisecond
	K := 1 + T.Draw("concurrent", 3)
	r.Config["version"] = v.String()
	r.Config["readTimeout"] = RT.String()
	r.Config["mode"] = []string{"silence", "paged-then-silence", "just-before", "just-after", "peer-stops-reading"}[mode]
	r.Config["latency"] = lat.String()
	ctx, cancel := context.WithCancel(context.Background())
	a, b := r.Net.Pair("L", r.Net.NewClientAddr(), mustAddr("10.0.0.2:9042"), opts)
	type obs struct {
		tag       string
		t0        time.Duration
		pageAt    []time.Duration
		endAt     time.Duration
		endErr    error
		closedNil bool
		isDone    bool
		errAfter  error
	}
	var all []*obs
	finished := false
	r.Go("main", func() {
		cc, err := client.VerifNewClientConnection(a, ctx, nil, primitive.CompressionNone, 16, 8, RT, nil)
		if err != nil {
			return
		}
		sc, err := client.VerifNewServerConnection(b, ctx, nil, 64, 1000*time.Hour, nil, nil, func(*client.CqlServerConnection) {})
		if err != nil {
			return
		}
		r.Cleanup(func() { _ = cc.Close(); _ = sc.Close(); cancel() })
		hs := make(doneChan)
		r.Go("hsServer", func() { defer close(hs); _ = sc.AcceptHandshake(); r.Yield("hs.s") })
		err = cc.InitiateHandshake(v, client.ManagedStreamId)
		r.Yield("hs.c")
		<-hs
		r.Yield("hs.joined")
		if err != nil {
			return
		}
		if mode == 4 {
			b.StallIncoming(1000 * time.Hour)
			r.Faults["peer_stops_reading"]++
		}
		r.Go("responder", func() {
			for {
				f, err := sc.Receive()
				r.Yield("resp.recv")
				if err != nil || f == nil {
					return
				}
				ff := f
				r.Go("answer", func() {
					tag := queryTag(ff)
					switch mode {
					case 0:
					case 1:
						for k := 0; k < pages; k++ {
							r.Sleep(gap)
							// never the last page: the response "keeps arriving", then falls silent
							_ = sc.Send(pageFrame(v, ff.Header.StreamId, tag, k, pages+1))
							r.Yield("resp.page")
						}
					case 2:
						r.Sleep(RT - eps - 2*lat)
						_ = sc.Send(pageFrame(v, ff.Header.StreamId, tag, 0, 1))
					case 3:
						r.Sleep(RT + eps)
						_ = sc.Send(pageFrame(v, ff.Header.StreamId, tag, 0, 1))
					}
				})
			}
		})
		var wg sync.WaitGroup
		for i := 0; i < K; i++ {
			i := i
			wg.Add(1)
			r.Go(fmt.Sprintf("sender%d", i), func() {
				defer wg.Done()
				if i > 0 {
					r.Sleep(time.Duration(i) * RT / 7)
				}
				o := &obs{tag: fmt.Sprintf("q%d", i)}
				all = append(all, o)
				o.t0 = r.Now()
				q := o.tag
				if mode == 4 {
					q = o.tag + "|" + strings.Repeat("x", 1000) // several times what the link holds
				}
				req, err := cc.Send(queryFrame(v, client.ManagedStreamId, q))
				r.Yield("sender.sent")
				if err != nil || req == nil {
					o.endErr = err
					return
				}
				for {
					fr, err := cc.Receive(req)
					now := r.Now() // before yielding: the instant the call returned
					r.Yield("sender.recv")
					if err != nil {
						o.endAt, o.endErr = now, err
						break
					}
					if fr == nil {
						o.endAt, o.closedNil = now, true
						break
					}
					o.pageAt = append(o.pageAt, now)
				}
				o.isDone = req.IsDone()
				o.errAfter = req.Err()
				r.Yield("sender.checked")
			})
		}
		wg.Wait()
		r.Yield("senders.joined")
		finished = true
	})
	if !r.Drive() {
		r.Violate(P, "liveness", "step-budget", "run did not quiesce")
		return
	}
	if len(all) == 0 {
		return
	}
	if !finished {
		r.Violate(P, "timeout", "never-completes", "mode %s: a request without (further) response never completed although the read timeout is %v", r.Config["mode"], RT)
		return
	}
	r.Nontrivial = true
	for _, o := range all {
		isTimeout := o.endErr != nil && strings.Contains(o.endErr.Error(), "timed out")
		switch mode {
		case 0, 3, 4:
			want := o.t0 + RT
			if !isTimeout {
				r.Violate(P, "timeout", "no-timeout-error", "mode %s: request %s sent at %v ended at %v with err=%v (closed without error: %v); expected a timeout error", r.Config["mode"], o.tag, o.t0, o.endAt, o.endErr, o.closedNil)
			} else if o.endAt != want {
				cls := "timeout-late"
				if o.endAt < want {
					cls = "timeout-early"
				}
				r.Violate(P, "timeout", cls, "mode %s: request %s sent at %v timed out at %v, expected exactly %v (read timeout %v)", r.Config["mode"], o.tag, o.t0, o.endAt, want, RT)
			}
			if len(o.pageAt) > 0 {
				r.Violate(P, "timeout", "late-response-delivered", "mode %s: request %s received a page although none was due before its timeout", r.Config["mode"], o.tag)
			}
		case 1:
			if len(o.pageAt) != pages {
				r.Violate(P, "timeout", "failed-while-pages-arrive", "request %s: the peer sent %d pages %v apart (read timeout %v) but only %d arrived before the request ended at %v with err=%v", o.tag, pages, gap, RT, len(o.pageAt), o.endAt, o.endErr)
				continue
			}
			want := o.pageAt[len(o.pageAt)-1] + RT
			if !isTimeout {
				r.Violate(P, "timeout", "no-timeout-error", "paged request %s ended at %v with err=%v; expected a timeout error after the last page", o.tag, o.endAt, o.endErr)
			} else if o.endAt != want {
				cls := "timeout-late"
				if o.endAt < want {
					cls = "timeout-early"
				}
				r.Violate(P, "timeout", cls, "paged request %s: last page at %v, timed out at %v, expected exactly %v", o.tag, o.pageAt[len(o.pageAt)-1], o.endAt, want)
			}
		case 2:
			if len(o.pageAt) != 1 || o.endErr != nil {
				r.Violate(P, "timeout", "failed-before-timeout", "request %s: the response arrived %v before the read timeout but the request ended with pages=%d err=%v", o.tag, eps, len(o.pageAt), o.endErr)
			}
		}
		if o.endErr != nil && (!o.isDone || o.errAfter == nil) {
			r.Violate(P, "request-complete", "failed-not-done", "request %s failed (%v) but IsDone=%v Err()=%v", o.tag, o.endErr, o.isDone, o.errAfter)
		}
	}
	if r.Spec.Trace {
		var l []string
		for _, o := range all {
			l = append(l, fmt.Sprintf("%s t0=%v pages=%v end=%v err=%v", o.tag, o.t0, o.pageAt, o.endAt, o.endErr != nil))
		}
		r.Sample = map[string]interface{}{"config": r.Config, "requests": l}
	}
}

// ---- "multi": one server, several clients, AcceptAny / AllAcceptedClients, faults on one of them ----

func init() {
	Register(&Scenario{Name: "multi", Property: "C16", Body: c16Multi})
}

var c16MultiFaults = []string{"none", "server_close", "server_ctx_cancel", "client_close", "srvconn_close", "rst", "fin_to_client", "fin_to_server", "client_ctx_cancel"}

func c16Multi(r *Run) {
	const P = "C16"
	r.InstallNetSeams()
	T := r.T
	v := r.DrawVersion()
	C := 2 + T.Draw("clients", 2)
	M := T.Draw("requests", 3)
	maxConns := C + T.Draw("maxconns.extra", 2) - T.Draw("maxconns.tight", 2) // sometimes one less than needed
	if maxConns < 1 {
		maxConns = 1
	}
	useAcceptAny := T.Bool("acceptAny", 0.5)
	opts := LinkOpts{Latency: ms([]int{0, 1, 20}[T.Draw("latency", 3)]), ChunkReads: T.Bool("chunkReads", 0.5)}
	r.listenOpts = map[string]LinkOpts{"10.0.0.2:9042": opts}
	fault, crashStep, victim := "none", -1, 0
	if s, ok := r.Spec.Params["crash_step"]; ok && s >= 0 {
		crashStep = s
		fault = c16MultiFaults[r.Spec.Params["fault"]%len(c16MultiFaults)]
		victim = r.Spec.Params["victim"] % C
	}
	r.Config["version"] = v.String()
	r.Config["clients"] = fmt.Sprint(C)
	r.Config["maxConnections"] = fmt.Sprint(maxConns)
	r.Config["acceptAny"] = fmt.Sprint(useAcceptAny)
	r.Config["fault"] = fmt.Sprintf("%s@%d victim=%d", fault, crashStep, victim)
	st := &c16State{r: r, v: v}
	srvCtx, srvStop := context.WithCancel(context.Background())
	cliCtx := make([]context.Context, C)
	cliStop := make([]context.CancelFunc, C)
	for i := range cliCtx {
		cliCtx[i], cliStop[i] = context.WithCancel(context.Background())
	}
	ccs := make([]*client.CqlClientConnection, C)
	scs := make([]*client.CqlServerConnection, C)
	var srv *client.CqlServer
	type reqObs struct {
		tag   string
		req   client.InFlightRequest
		final bool
	}
	var reqs []*reqObs
	mainT := st.task("main")
	var wg sync.WaitGroup
	r.Go("main", func() {
		defer func() { mainT.done = true }()
		// the server becomes visible to the fault injector only once Start has returned: closing a
		// server that is still starting is not a use the statement covers
		s0 := client.NewCqlServer("10.0.0.2:9042", nil)
		s0.MaxConnections = maxConns
		s0.AcceptTimeout = 5 * time.Second
		var err error
		mainT.call(r, "Server.Start", func() { err = s0.Start(srvCtx) })
		if err != nil {
			return
		}
		srv = s0
		if !useAcceptAny && T.Bool("extraAcceptor", 0.4) {
			// connections obtained through Accept stay queued for AcceptAny: somebody drains that queue
			// while connections come and go
			at := st.task("acceptor")
			wg.Add(1)
			r.Go(at.name, func() {
				defer func() { at.done = true; wg.Done() }()
				for k := 0; k < 2*C+2; k++ {
					// at scattered moments, so that the queue is usually not empty when a connection ends
					r.Sleep(ms(T.Draw("extraAcceptor.pause", 60)))
					var err error
					at.call(r, "Server.AcceptAny", func() { _, err = srv.AcceptAny() })
					if err != nil {
						return
					}
				}
			})
		}
		for i := 0; i < C; i++ {
			i := i
			ct := st.task(fmt.Sprintf("client%d", i))
			wg.Add(1)
			r.Go(ct.name, func() {
				defer func() { ct.done = true; wg.Done() }()
				cl := client.NewCqlClient("10.0.0.2:9042", nil)
				cl.MaxInFlight = 4
				cl.ReadTimeout = 2 * time.Second
				var cc *client.CqlClientConnection
				var err error
				ct.call(r, "Client.Connect", func() { cc, err = cl.Connect(cliCtx[i]) })
				if err != nil || cc == nil {
					return
				}
				ccs[i] = cc
				var sc *client.CqlServerConnection
				if useAcceptAny {
					ct.call(r, "Server.AcceptAny", func() { sc, err = srv.AcceptAny() })
				} else {
					ct.call(r, "Server.Accept", func() { sc, err = srv.Accept(cc) })
				}
				if err == nil && sc != nil {
					// with AcceptAny the returned connection may belong to another client: index by arrival
					for k := range scs {
						if scs[k] == nil {
							scs[k] = sc
							break
						}
					}
					st2 := st.task(fmt.Sprintf("server%d", i))
					wg.Add(1)
					r.Go(st2.name, func() {
						defer func() { st2.done = true; wg.Done() }()
						st2.call(r, "AcceptHandshake", func() { err = sc.AcceptHandshake() })
						for {
							var f *frame.Frame
							var err error
							st2.call(r, "Server.Receive", func() { f, err = sc.Receive() })
							if err != nil || f == nil {
								return
							}
							st2.call(r, "Server.Send", func() { _ = sc.Send(pageFrame(v, f.Header.StreamId, queryTag(f), 0, 1)) })
						}
					})
				}
				ct.call(r, "InitiateHandshake", func() { err = cc.InitiateHandshake(v, client.ManagedStreamId) })
				if err != nil {
					return
				}
				for j := 0; j < M; j++ {
					o := &reqObs{tag: fmt.Sprintf("c%d.q%d", i, j)}
					reqs = append(reqs, o)
					ct.call(r, "Send", func() { o.req, err = cc.Send(queryFrame(v, client.ManagedStreamId, o.tag)) })
					if err != nil || o.req == nil {
						continue
					}
					var fr *frame.Frame
					ct.call(r, "Receive", func() { fr, err = cc.Receive(o.req) })
					if err == nil && fr != nil {
						o.final = true
					}
				}
				if T.Bool("allAccepted", 0.3) {
					ct.call(r, "AllAcceptedClients", func() { _, _ = srv.AllAcceptedClients() })
				}
			})
		}
		mainT.inCall = "wait clients"
		wg.Wait()
		r.Yield("clients.joined")
		mainT.inCall = ""
		for i, cc := range ccs {
			if cc != nil {
				i, cc := i, cc
				mainT.call(r, fmt.Sprintf("Client%d.Close", i), func() { _ = cc.Close() })
			}
		}
		mainT.call(r, "Server.Close", func() { _ = srv.Close() })
		for _, stop := range cliStop {
			stop()
		}
		srvStop()
	})
	if fault != "none" && crashStep >= 0 {
		l := func() *Listener { return r.Net.ListenerAt("10.0.0.2:9042") }
		r.OnStep(func(now int) bool {
			if now < crashStep {
				return false
			}
			closer := func(name string, f func()) {
				t := st.task("closer")
				r.Go("closer", func() {
					defer func() { t.done = true }()
					t.call(r, name, f)
				})
			}
			switch fault {
			case "server_close":
				if srv == nil {
					return false
				}
				closer("Server.Close", func() { _ = srv.Close() })
			case "server_ctx_cancel":
				srvStop()
			case "client_ctx_cancel":
				cliStop[victim]()
			case "client_close":
				if ccs[victim] == nil {
					return false
				}
				closer("Client.Close", func() { _ = ccs[victim].Close() })
			case "srvconn_close":
				if scs[victim] == nil {
					return false
				}
				closer("ServerConn.Close", func() { _ = scs[victim].Close() })
			case "rst", "fin_to_client", "fin_to_server":
				ls := l()
				if ls == nil || len(ls.Clients) <= victim {
					return false
				}
				switch fault {
				case "rst":
					ls.Clients[victim].Rst()
				case "fin_to_client":
					ls.Clients[victim].FinFromPeer()
				default:
					ls.Conns[victim].FinFromPeer()
				}
			}
			r.Fault(fault)
			return true
		})
	}
	if !r.Drive() {
		r.Violate(P, "liveness", "step-budget", "run did not quiesce")
		return
	}
	r.Nontrivial = r.repoSwitches > 0
	nBlocked := 0
	for _, t := range st.tasks {
		if !t.done && !strings.HasPrefix(t.inCall, "wait ") {
			nBlocked++
		}
	}
	allDone := true
	for _, t := range st.tasks {
		if !t.done {
			allDone = false
			if strings.HasPrefix(t.inCall, "wait ") && nBlocked > 0 {
				continue
			}
			r.Violate(P, "returns", "blocked:"+t.stuckAt(), "multi-client session: task %s is still blocked in %q (last seen at %s) at quiescence (fault %s@%d victim %d)", t.name, t.inCall, t.stuckAt(), fault, crashStep, victim)
		}
	}
	checked := false
	var bad string
	r.Go("oracle", func() {
		for _, o := range reqs {
			if o.req == nil {
				continue
			}
			closed := false
			ch := o.req.Incoming()
		drain:
			for {
				select {
				case f, ok := <-ch:
					if !ok {
						closed = true
						break drain
					}
					if f != nil {
						o.final = true
					}
				default:
					break drain
				}
			}
			if !closed {
				bad = fmt.Sprintf("channel-open|request %s: Incoming() is not closed at quiescence", o.tag)
			} else if !o.req.IsDone() {
				bad = fmt.Sprintf("closed-not-done|request %s: closed but IsDone()==false", o.tag)
			} else if !o.final && o.req.Err() == nil {
				bad = fmt.Sprintf("closed-nil-err|request %s: closed without a response and Err()==nil", o.tag)
			}
			r.Yield("oracle.req")
		}
		checked = true
	})
	r.Drive()
	if !checked {
		r.Violate(P, "request-complete", "accessor-blocked", "request accessor blocked at quiescence")
	} else if bad != "" {
		parts := strings.SplitN(bad, "|", 2)
		r.Violate(P, "request-complete", parts[0], "%s (fault %s@%d)", parts[1], fault, crashStep)
	}
	for _, t := range r.S.Live() {
		if t.Repo && allDone {
			r.Violate(P, "no-leak", fmt.Sprintf("leak:%s@%s", SiteFunc(t.Spawn), SiteFunc(t.At)),
				"multi-client session: goroutine spawned at %s is still alive at quiescence, last seen at %s", t.Spawn, t.At)
		}
	}
}
