package sim

import (
	"bytes"
	"encoding/binary"
	"errors"
	"fmt"
	"io"
	"sort"

	"github.com/pierrec/lz4/v4"
)

// refwire is a small codec written from specs/*.spec only (DESIGN.md §3.5), so that the counterpart
// of the code under test is not always the library itself. It knows the frame (envelope) header of
// every version, the v5 segment framing with both checksums, and the bodies of a dozen messages.
// Nothing here imports the repository.

// ---- frame / envelope header ----

type RHeader struct {
	Version  byte // without direction bit
	Response bool
	Flags    byte
	Stream   int16
	Opcode   byte
	Length   int32
}

const (
	RFlagCompressed = 0x01
	RFlagTracing    = 0x02
	RFlagPayload    = 0x04
	RFlagWarning    = 0x08
	RFlagBeta       = 0x10
)

const (
	ROpError        = 0x00
	ROpStartup      = 0x01
	ROpReady        = 0x02
	ROpAuthenticate = 0x03
	ROpOptions      = 0x05
	ROpSupported    = 0x06
	ROpQuery        = 0x07
	ROpResult       = 0x08
	ROpPrepare      = 0x09
	ROpExecute      = 0x0A
	ROpRegister     = 0x0B
	ROpEvent        = 0x0C
	ROpBatch        = 0x0D
	ROpAuthChallenge = 0x0E
	ROpAuthResponse = 0x0F
	ROpAuthSuccess  = 0x10
)

// RHeaderLen: v1/v2 have an 8-byte header (1-byte stream id), v3+ and DSE 9 bytes.
func RHeaderLen(version byte) int {
	if version <= 2 {
		return 8
	}
	return 9
}

var ErrShort = errors.New("refwire: incomplete")

func RParseHeader(b []byte) (RHeader, error) {
	if len(b) < 1 {
		return RHeader{}, ErrShort
	}
	h := RHeader{Version: b[0] & 0x7f, Response: b[0]&0x80 != 0}
	n := RHeaderLen(h.Version)
	if len(b) < n {
		return h, ErrShort
	}
	h.Flags = b[1]
	if n == 8 {
		h.Stream = int16(int8(b[2]))
		h.Opcode = b[3]
		h.Length = int32(binary.BigEndian.Uint32(b[4:8]))
	} else {
		h.Stream = int16(binary.BigEndian.Uint16(b[2:4]))
		h.Opcode = b[4]
		h.Length = int32(binary.BigEndian.Uint32(b[5:9]))
	}
	return h, nil
}

func RBuildFrame(h RHeader, body []byte) []byte {
	out := make([]byte, 0, 9+len(body))
	v := h.Version
	if h.Response {
		v |= 0x80
	}
	out = append(out, v, h.Flags)
	if RHeaderLen(h.Version) == 8 {
		out = append(out, byte(int8(h.Stream)))
	} else {
		out = append(out, byte(uint16(h.Stream)>>8), byte(h.Stream))
	}
	out = append(out, h.Opcode)
	var l [4]byte
	binary.BigEndian.PutUint32(l[:], uint32(len(body)))
	out = append(out, l[:]...)
	return append(out, body...)
}

// RFrame is one frame located in a byte stream by its declared length.
type RFrame struct {
	H     RHeader
	Body  []byte
	Start int // offset of the header in the stream
	End   int // offset just past the body
}

// RSplitFrames cuts a stream into frames strictly by declared lengths. It stops at the first
// incomplete frame (rest) and fails on an implausible header.
func RSplitFrames(stream []byte) (frames []RFrame, rest []byte, err error) {
	off := 0
	for off < len(stream) {
		h, e := RParseHeader(stream[off:])
		if e == ErrShort {
			break
		}
		if !RValidVersion(h.Version) {
			return frames, stream[off:], fmt.Errorf("refwire: bad version byte 0x%02x at offset %d", stream[off], off)
		}
		if h.Length < 0 || h.Length > 256<<20 {
			return frames, stream[off:], fmt.Errorf("refwire: bad length %d at offset %d", h.Length, off)
		}
		if h.Opcode > 0x10 && h.Opcode != 0xFF {
			return frames, stream[off:], fmt.Errorf("refwire: bad opcode 0x%02x at offset %d", h.Opcode, off)
		}
		n := RHeaderLen(h.Version)
		if off+n+int(h.Length) > len(stream) {
			break
		}
		frames = append(frames, RFrame{H: h, Body: stream[off+n : off+n+int(h.Length)], Start: off, End: off + n + int(h.Length)})
		off += n + int(h.Length)
	}
	return frames, stream[off:], nil
}

// RValidVersion: OSS 2..5, DSE v1 = 0x41, DSE v2 = 0x42 (dse_protocol_v*.spec: 0x40 bit marks DSE).
func RValidVersion(v byte) bool {
	return (v >= 2 && v <= 5) || v == 0x41 || v == 0x42
}

// ---- checksums (native_protocol_v5.spec §2; parameters as in Cassandra's Crc.java) ----

// RCrc24 over the low `n` bytes of data, least significant byte first.
func RCrc24(data uint64, n int) uint32 {
	crc := uint32(0x875060)
	for i := 0; i < n; i++ {
		b := uint32(data>>(8*uint(i))) & 0xff
		crc ^= b << 16
		for k := 0; k < 8; k++ {
			crc <<= 1
			if crc&0x1000000 != 0 {
				crc ^= 0x1974F0B
			}
		}
	}
	return crc & 0xffffff
}

// RCrc32: reflected CRC-32 (IEEE 802.3, polynomial 0xEDB88320), computed bit by bit, over the four
// seed bytes FA 2D 55 CA followed by the data.
func RCrc32(data []byte) uint32 {
	crc := ^uint32(0)
	upd := func(b byte) {
		crc ^= uint32(b)
		for k := 0; k < 8; k++ {
			if crc&1 != 0 {
				crc = crc>>1 ^ 0xEDB88320
			} else {
				crc >>= 1
			}
		}
	}
	for _, b := range []byte{0xFA, 0x2D, 0x55, 0xCA} {
		upd(b)
	}
	for _, b := range data {
		upd(b)
	}
	return ^crc
}

// ---- v5 segments ----

const RMaxPayload = 1<<17 - 1

// RBuildSegment encodes one segment. With lz4On the 5-byte header is used; the payload is compressed
// unless that does not make it smaller (or forceRaw), in which case the spec's "uncompressed length
// = 0" fallback is used... per §2.3.2: compressed length field holds the payload length and the
// uncompressed length is 0.
func RBuildSegment(payload []byte, selfContained, lz4On, forceRaw bool) []byte {
	if len(payload) > RMaxPayload {
		panic("refwire: payload too large")
	}
	var out []byte
	if !lz4On {
		hd := uint64(len(payload))
		if selfContained {
			hd |= 1 << 17
		}
		for i := 0; i < 3; i++ {
			out = append(out, byte(hd>>(8*uint(i))))
		}
		c := RCrc24(hd, 3)
		out = append(out, byte(c), byte(c>>8), byte(c>>16))
		out = append(out, payload...)
	} else {
		wire := payload
		uncompressedLen := 0
		if !forceRaw && len(payload) > 0 {
			buf := make([]byte, lz4.CompressBlockBound(len(payload)))
			n, err := lz4.CompressBlock(payload, buf, nil)
			if err == nil && n > 0 && n < len(payload) {
				wire = buf[:n]
				uncompressedLen = len(payload)
			}
		}
		hd := uint64(len(wire)) | uint64(uncompressedLen)<<17
		if selfContained {
			hd |= 1 << 34
		}
		for i := 0; i < 5; i++ {
			out = append(out, byte(hd>>(8*uint(i))))
		}
		c := RCrc24(hd, 5)
		out = append(out, byte(c), byte(c>>8), byte(c>>16))
		out = append(out, wire...)
		payload = wire
	}
	c32 := RCrc32(payload)
	return append(out, byte(c32), byte(c32>>8), byte(c32>>16), byte(c32>>24))
}

type RSegment struct {
	Payload       []byte // uncompressed
	Wire          []byte // payload bytes as transmitted
	SelfContained bool
	Compressed    bool
	Start, End    int
}

// RParseSegment parses one segment at the start of b. ErrShort if incomplete.
func RParseSegment(b []byte, lz4On bool) (RSegment, error) {
	hl := 3
	if lz4On {
		hl = 5
	}
	if len(b) < hl+3 {
		return RSegment{}, ErrShort
	}
	var hd uint64
	for i := 0; i < hl; i++ {
		hd |= uint64(b[i]) << (8 * uint(i))
	}
	got := uint32(b[hl]) | uint32(b[hl+1])<<8 | uint32(b[hl+2])<<16
	if want := RCrc24(hd, hl); got != want {
		return RSegment{}, fmt.Errorf("refwire: segment header CRC24 mismatch: got %06x want %06x (header %x)", got, want, hd)
	}
	var s RSegment
	var wireLen, uncompressedLen int
	if !lz4On {
		wireLen = int(hd & RMaxPayload)
		s.SelfContained = hd>>17&1 == 1
		if hd>>18 != 0 {
			return s, fmt.Errorf("refwire: segment header padding bits not zero: %x", hd)
		}
	} else {
		wireLen = int(hd & RMaxPayload)
		uncompressedLen = int(hd >> 17 & RMaxPayload)
		s.SelfContained = hd>>34&1 == 1
		if hd>>35 != 0 {
			return s, fmt.Errorf("refwire: segment header padding bits not zero: %x", hd)
		}
	}
	total := hl + 3 + wireLen + 4
	if len(b) < total {
		return s, ErrShort
	}
	s.Wire = b[hl+3 : hl+3+wireLen]
	c := b[hl+3+wireLen:]
	got32 := uint32(c[0]) | uint32(c[1])<<8 | uint32(c[2])<<16 | uint32(c[3])<<24
	if want := RCrc32(s.Wire); got32 != want {
		return s, fmt.Errorf("refwire: segment payload CRC32 mismatch: got %08x want %08x", got32, want)
	}
	s.End = total
	if lz4On && uncompressedLen > 0 {
		s.Compressed = true
		out := make([]byte, uncompressedLen)
		n, err := lz4.UncompressBlock(s.Wire, out)
		if err != nil || n != uncompressedLen {
			return s, fmt.Errorf("refwire: segment LZ4 payload does not decompress to the declared %d bytes: n=%d err=%v", uncompressedLen, n, err)
		}
		s.Payload = out
	} else {
		s.Payload = s.Wire
	}
	return s, nil
}

// RSplitSegments parses consecutive segments; rest holds an incomplete tail.
func RSplitSegments(stream []byte, lz4On bool) (segs []RSegment, rest []byte, err error) {
	off := 0
	for off < len(stream) {
		s, e := RParseSegment(stream[off:], lz4On)
		if e == ErrShort {
			break
		}
		if e != nil {
			return segs, stream[off:], fmt.Errorf("at offset %d: %w", off, e)
		}
		s.Start, s.End = off, off+s.End
		segs = append(segs, s)
		off = s.End
	}
	return segs, stream[off:], nil
}

// ---- notations (spec §3) ----

type RW struct{ bytes.Buffer }

func (w *RW) Byte(b byte)    { w.WriteByte(b) }
func (w *RW) Short(v uint16) { w.Write([]byte{byte(v >> 8), byte(v)}) }
func (w *RW) Int(v int32) {
	var b [4]byte
	binary.BigEndian.PutUint32(b[:], uint32(v))
	w.Write(b[:])
}
func (w *RW) String(s string)     { w.Short(uint16(len(s))); w.WriteString(s) }
func (w *RW) LongString(s string) { w.Int(int32(len(s))); w.WriteString(s) }
func (w *RW) Bytes(b []byte) {
	if b == nil {
		w.Int(-1)
		return
	}
	w.Int(int32(len(b)))
	w.Write(b)
}
func (w *RW) StringList(l []string) {
	w.Short(uint16(len(l)))
	for _, s := range l {
		w.String(s)
	}
}
func (w *RW) StringMap(m map[string]string) {
	ks := make([]string, 0, len(m))
	for k := range m {
		ks = append(ks, k)
	}
	sort.Strings(ks)
	w.Short(uint16(len(m)))
	for _, k := range ks {
		w.String(k)
		w.String(m[k])
	}
}
func (w *RW) StringMultimap(m map[string][]string) {
	ks := make([]string, 0, len(m))
	for k := range m {
		ks = append(ks, k)
	}
	sort.Strings(ks)
	w.Short(uint16(len(m)))
	for _, k := range ks {
		w.String(k)
		w.StringList(m[k])
	}
}

type RR struct {
	B   []byte
	Off int
	Err error
}

func (r *RR) need(n int) bool {
	if r.Err != nil {
		return false
	}
	if n < 0 || r.Off+n > len(r.B) {
		r.Err = io.ErrUnexpectedEOF
		return false
	}
	return true
}
func (r *RR) Byte() byte {
	if !r.need(1) {
		return 0
	}
	r.Off++
	return r.B[r.Off-1]
}
func (r *RR) Short() uint16 {
	if !r.need(2) {
		return 0
	}
	r.Off += 2
	return binary.BigEndian.Uint16(r.B[r.Off-2:])
}
func (r *RR) Int() int32 {
	if !r.need(4) {
		return 0
	}
	r.Off += 4
	return int32(binary.BigEndian.Uint32(r.B[r.Off-4:]))
}
func (r *RR) String() string {
	n := int(r.Short())
	if !r.need(n) {
		return ""
	}
	r.Off += n
	return string(r.B[r.Off-n : r.Off])
}
func (r *RR) LongString() string {
	n := int(r.Int())
	if !r.need(n) {
		return ""
	}
	r.Off += n
	return string(r.B[r.Off-n : r.Off])
}
func (r *RR) Bytes() []byte {
	n := int(r.Int())
	if n < 0 {
		return nil
	}
	if !r.need(n) {
		return nil
	}
	r.Off += n
	return r.B[r.Off-n : r.Off]
}
func (r *RR) StringMap() map[string]string {
	n := int(r.Short())
	m := map[string]string{}
	for i := 0; i < n && r.Err == nil; i++ {
		k := r.String()
		m[k] = r.String()
	}
	return m
}
func (r *RR) Rest() int { return len(r.B) - r.Off }

// ---- message bodies (spec §4) ----

// <flags> of QUERY is a [byte] in v2-v4 and an [int] in v5 (native_protocol_v5.spec §4.1.4) and in both
// DSE versions (dse_protocol_v1.spec §4.1.4: "<flags> is a [int]").
func rUsesIntQueryFlags(version byte) bool { return version == 5 || version == 0x41 || version == 0x42 }

func RBodyStartup(options map[string]string) []byte {
	var w RW
	w.StringMap(options)
	return w.Bytes2()
}
func (w *RW) Bytes2() []byte { return append([]byte(nil), w.Buffer.Bytes()...) }

func RBodyAuthenticate(name string) []byte { var w RW; w.String(name); return w.Bytes2() }
func RBodyToken(tok []byte) []byte         { var w RW; w.Bytes(tok); return w.Bytes2() }
func RBodySupported(m map[string][]string) []byte {
	var w RW
	w.StringMultimap(m)
	return w.Bytes2()
}
func RBodyRegister(events []string) []byte { var w RW; w.StringList(events); return w.Bytes2() }

// RBodyQuery: <query><consistency><flags> with no optional parts (flags = 0).
func RBodyQuery(version byte, query string, consistency uint16) []byte {
	var w RW
	w.LongString(query)
	w.Short(consistency)
	if rUsesIntQueryFlags(version) {
		w.Int(0)
	} else {
		w.Byte(0)
	}
	return w.Bytes2()
}

// RParseQuery extracts the query string of a QUERY body.
func RParseQuery(body []byte) (string, error) {
	r := RR{B: body}
	q := r.LongString()
	return q, r.Err
}

func RBodyResultVoid() []byte { var w RW; w.Int(1); return w.Bytes2() }
func RBodyResultSetKeyspace(ks string) []byte {
	var w RW
	w.Int(3)
	w.String(ks)
	return w.Bytes2()
}

// RBodyResultRows: Rows result with NO_METADATA, columnCount columns, given cells (row-major), and
// for DSE continuous paging (page > 0) the page number and last-page flag.
// Flags (spec §4.2.5.2 and dse_protocol_v1.spec): 0x0004 No_metadata, 0x40000000 continuous paging,
// 0x80000000 last continuous page.
func RBodyResultRows(columnCount int, rows [][][]byte, page int32, last bool) []byte {
	var w RW
	w.Int(2)
	flags := uint32(0x0004)
	if page > 0 {
		flags |= 0x40000000
		if last {
			flags |= 0x80000000
		}
	}
	w.Int(int32(flags))
	w.Int(int32(columnCount))
	if page > 0 {
		w.Int(page)
	}
	w.Int(int32(len(rows)))
	for _, row := range rows {
		for _, cell := range row {
			w.Bytes(cell)
		}
	}
	return w.Bytes2()
}

// RParseRowsSingleCell reads back a Rows result produced by RBodyResultRows / the library for the
// tagging scheme used by the harness (1 column, 1 row): returns the cell.
func RParseRowsSingleCell(body []byte) (cell []byte, page int32, last bool, err error) {
	r := RR{B: body}
	if kind := r.Int(); kind != 2 {
		return nil, 0, false, fmt.Errorf("not a Rows result: kind %d", kind)
	}
	flags := uint32(r.Int())
	cols := r.Int()
	if flags&0x0002 != 0 {
		r.Bytes() // paging state
	}
	if flags&0x0008 != 0 {
		n := int(r.Short())
		if r.need(n) {
			r.Off += n
		}
	}
	if flags&0x40000000 != 0 {
		page = r.Int()
		last = flags&0x80000000 != 0
	}
	if flags&0x0004 == 0 {
		return nil, page, last, fmt.Errorf("metadata present: not supported by refwire")
	}
	rows := r.Int()
	if cols != 1 || rows != 1 {
		return nil, page, last, fmt.Errorf("expected 1x1 rows, got %dx%d", rows, cols)
	}
	cell = r.Bytes()
	return cell, page, last, r.Err
}

func RBodyError(code int32, msg string) []byte {
	var w RW
	w.Int(code)
	w.String(msg)
	return w.Bytes2()
}

// RBodyEventStatusChange: <"STATUS_CHANGE"><"UP"|"DOWN"><inet>.
func RBodyEventStatusChange(up bool, ip [4]byte, port int32) []byte {
	var w RW
	w.String("STATUS_CHANGE")
	if up {
		w.String("UP")
	} else {
		w.String("DOWN")
	}
	w.Byte(4)
	w.Write(ip[:])
	w.Int(port)
	return w.Bytes2()
}

// RLz4BodyDecompress undoes per-envelope LZ4 body compression of protocol v2-v4 (spec §5: the body
// is a 4-byte big-endian uncompressed length followed by one LZ4 block).
func RLz4BodyDecompress(body []byte) ([]byte, error) {
	if len(body) < 4 {
		return nil, ErrShort
	}
	n := int(binary.BigEndian.Uint32(body))
	if n == 0 {
		return []byte{}, nil
	}
	if n < 0 || n > 256<<20 {
		return nil, fmt.Errorf("refwire: bad uncompressed length %d", n)
	}
	out := make([]byte, n)
	m, err := lz4.UncompressBlock(body[4:], out)
	if err != nil || m != n {
		return nil, fmt.Errorf("refwire: LZ4 body does not decompress to the declared %d bytes: n=%d err=%v", n, m, err)
	}
	return out, nil
}

// RCrc32Plain is the standard CRC-32 (IEEE) of data WITHOUT Cassandra's four initial bytes: one of the
// "almost right" checksums a lenient comparison might accept.
func RCrc32Plain(data []byte) uint32 {
	crc := ^uint32(0)
	for _, b := range data {
		crc ^= uint32(b)
		for k := 0; k < 8; k++ {
			if crc&1 == 1 {
				crc = crc>>1 ^ 0xEDB88320
			} else {
				crc >>= 1
			}
		}
	}
	return ^crc
}
