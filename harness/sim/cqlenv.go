package sim

import (
	"bytes"
	"context"
	"fmt"
	"net"
	"os"
	"sync"
	"time"

	"github.com/datastax/go-cassandra-native-protocol/client"
	"github.com/datastax/go-cassandra-native-protocol/frame"
	"github.com/datastax/go-cassandra-native-protocol/message"
	"github.com/datastax/go-cassandra-native-protocol/primitive"
	"github.com/rs/zerolog"
	"verif/simrt"
)

func init() {
	// one make() in instrumented code may not exceed this (see simrt.AllocGuard)
	simrt.AllocLimit = 64 << 20
	zerolog.SetGlobalLevel(zerolog.Disabled)
	if os.Getenv("VERIF_LOG") != "" { // debugging aid only; logging never draws from the tape
		zerolog.SetGlobalLevel(zerolog.ErrorLevel)
	}
}

var allVersions = []primitive.ProtocolVersion{
	primitive.ProtocolVersion4, primitive.ProtocolVersion5, primitive.ProtocolVersion3,
	primitive.ProtocolVersionDse2, primitive.ProtocolVersion2, primitive.ProtocolVersionDse1,
}

// InstallNetSeams points the client package's listen/dial hooks at the simulated network.
func (r *Run) InstallNetSeams() {
	client.VerifListen = r.Net.Listen
	client.VerifDial = func(d *net.Dialer, ctx context.Context, network, addr string) (net.Conn, error) {
		return r.Net.Dial(addr)
	}
}

func (r *Run) DrawVersion() primitive.ProtocolVersion {
	return allVersions[r.T.Draw("version", len(allVersions))]
}

func (r *Run) DrawCompression(v primitive.ProtocolVersion) primitive.Compression {
	opts := []primitive.Compression{primitive.CompressionNone, primitive.CompressionLz4}
	if v.SupportsCompression(primitive.CompressionSnappy) {
		opts = append(opts, primitive.CompressionSnappy)
	}
	return opts[r.T.Draw("compression", len(opts))]
}

// queryFrame builds a QUERY request carrying a tag.
func queryFrame(v primitive.ProtocolVersion, streamId int16, tag string) *frame.Frame {
	return frame.NewFrame(v, streamId, &message.Query{Query: tag, Options: &message.QueryOptions{Consistency: primitive.ConsistencyLevelOne}})
}

func queryTag(f *frame.Frame) string {
	if q, ok := f.Body.Message.(*message.Query); ok {
		return q.Query
	}
	return fmt.Sprintf("<%T>", f.Body.Message)
}

// pageFrame builds a RESULT Rows response carrying tag and page index in its single row. With
// pages > 1 it uses DSE continuous paging (page numbers start at 1, last page flagged).
func pageFrame(v primitive.ProtocolVersion, streamId int16, tag string, page, pages int) *frame.Frame {
	md := &message.RowsMetadata{ColumnCount: 1}
	if pages > 1 {
		md.ContinuousPageNumber = int32(page + 1)
		md.LastContinuousPage = page == pages-1
	}
	rows := &message.RowsResult{Metadata: md, Data: message.RowSet{message.Row{message.Column(fmt.Sprintf("%s#%d", tag, page))}}}
	return frame.NewFrame(v, streamId, rows)
}

// pageFramePadded is pageFrame with pad filler bytes after the tag (the tag ends at '|').
func pageFramePadded(v primitive.ProtocolVersion, streamId int16, tag string, page, pages, pad int) *frame.Frame {
	f := pageFrame(v, streamId, tag, page, pages)
	if pad > 0 {
		rows := f.Body.Message.(*message.RowsResult)
		rows.Data[0][0] = append(append(rows.Data[0][0], '|'), bytes.Repeat([]byte{'x'}, pad)...)
	}
	return f
}

func pageTag(f *frame.Frame) string {
	if f == nil || f.Body == nil {
		return "<nil>"
	}
	switch m := f.Body.Message.(type) {
	case *message.RowsResult:
		if len(m.Data) == 1 && len(m.Data[0]) == 1 {
			cell := m.Data[0][0]
			if i := bytes.IndexByte(cell, '|'); i >= 0 {
				cell = cell[:i]
			}
			return string(cell)
		}
		return "<rows?>"
	case *message.SetKeyspaceResult:
		return m.Keyspace
	}
	return fmt.Sprintf("<%T>", f.Body.Message)
}

func eventFrame(v primitive.ProtocolVersion, n int) *frame.Frame {
	ev := &message.StatusChangeEvent{ChangeType: primitive.StatusChangeTypeUp,
		Address: &primitive.Inet{Addr: net.IPv4(10, 1, byte(n>>8), byte(n)), Port: 9042}}
	return frame.NewFrame(v, -1, ev)
}

func eventTag(f *frame.Frame) string {
	if ev, ok := f.Body.Message.(*message.StatusChangeEvent); ok && ev.Address != nil {
		ip := ev.Address.Addr.To4()
		if ip != nil {
			return fmt.Sprintf("ev%d", int(ip[2])<<8|int(ip[3]))
		}
	}
	return fmt.Sprintf("<%T>", f.Body.Message)
}

// doneChan is a harness-side completion flag that tasks can wait on durably.
type doneChan chan struct{}

func (d doneChan) isDone() bool {
	select {
	case <-d:
		return true
	default:
		return false
	}
}

func ms(n int) time.Duration { return time.Duration(n) * time.Millisecond }

// Cond is a deterministic condition variable for harness tasks: waiters block on one signal channel
// and re-evaluate their predicate (while holding the baton) after every wake-up, so the outcome
// never depends on which case of a multi-way select the Go runtime would have picked.
type Cond struct {
	mu  sync.Mutex
	sig chan struct{}
}

func NewCond() *Cond { return &Cond{sig: make(chan struct{})} }

// Bump wakes all waiters.
func (c *Cond) Bump() {
	c.mu.Lock()
	close(c.sig)
	c.sig = make(chan struct{})
	c.mu.Unlock()
}

// Wait blocks the calling harness task until pred() holds.
func (c *Cond) Wait(pred func() bool) {
	for {
		c.mu.Lock()
		s := c.sig
		c.mu.Unlock()
		if pred() {
			return
		}
		<-s
		simrt.Yield("h:cond.wake")
	}
}

// markCompressed asks for body compression of a frame the way callers can: through SetCompress, and —
// for the empty-bodied READY/OPTIONS that SetCompress leaves alone — by setting the COMPRESSED header
// flag directly, which is what the library's own server connection does for every outgoing frame once
// compression is negotiated. STARTUP is never compressed.
func markCompressed(T *Tape, f *frame.Frame) {
	f.SetCompress(true)
	if f.Header.OpCode != primitive.OpCodeStartup && T.Bool("compressflag.direct", 0.5) {
		f.Header.Flags = f.Header.Flags.Add(primitive.HeaderFlagCompressed)
	}
}

// DrawStreamId draws a stream id for a generated frame: mostly small non-negative ids, sometimes the
// edges of the version's range (one signed byte in v2, two bytes from v3 on) and -1 (server events).
func DrawStreamId(T *Tape, v primitive.ProtocolVersion) int16 {
	if T.Bool("stream.edge", 0.15) {
		if v == primitive.ProtocolVersion2 {
			return []int16{-1, -128, 127, -2}[T.Draw("stream.edgeval", 4)]
		}
		return []int16{-1, -32768, 32767, 255, 256, -129}[T.Draw("stream.edgeval", 6)]
	}
	return int16(T.Draw("stream", 120))
}
