package sim

import (
	"sort"
	"bytes"
	"context"
	"fmt"
	"strings"
	"sync"
	"time"

	"github.com/datastax/go-cassandra-native-protocol/client"
	"github.com/datastax/go-cassandra-native-protocol/frame"
	"github.com/datastax/go-cassandra-native-protocol/message"
	"github.com/datastax/go-cassandra-native-protocol/primitive"
)

// C15 — client and server exchange frames intact under every version and compression
// (DESIGN.md §5 C15). Scenarios:
//   exchange : real client <-> real server, generated request/response frames, all versions x
//              compressions x auth; equality in both directions + wire oracle (refwire) on both taps
//   rawclient: raw (refwire) client -> real server: multi-envelope segments, split envelopes
//   rawserver: real client <- raw (refwire) server: same in the other direction

func init() {
	Register(&Scenario{Name: "exchange", Property: "C15", Body: c15Exchange})
	Register(&Scenario{Name: "rawclient", Property: "C15", Body: c15RawClient})
	Register(&Scenario{Name: "rawserver", Property: "C15", Body: c15RawServer})
	props["C15"] = &propDef{Case: func(w *Worker, i int) {
		w.Exec(RunSpec{Scenario: "exchange", Index: i})
		w.Exec(RunSpec{Scenario: "rawclient", Index: i})
		w.Exec(RunSpec{Scenario: "rawserver", Index: i})
	}}
}

func versionByte(v primitive.ProtocolVersion) byte { return byte(v) }

func compName(c primitive.Compression) string {
	switch c {
	case primitive.CompressionLz4:
		return "lz4"
	case primitive.CompressionSnappy:
		return "snappy"
	}
	return ""
}

// wireOracle checks one direction of a tapped connection against the specification with refwire:
// legacy frames up to and including the frame that ends the unframed handshake, then (v5) segments
// with valid checksums whose envelopes are not individually compressed. It returns the envelopes.
func wireOracle(r *Run, P string, dirName string, stream []byte, v primitive.ProtocolVersion, comp primitive.Compression, legacyFrames int) []RFrame {
	modern := v.SupportsModernFramingLayout()
	var envs []RFrame
	if !modern {
		frames, rest, err := RSplitFrames(stream)
		if err != nil {
			r.Violate(P, "wire", "legacy-unparsable:"+dirName, "%s: bytes on the wire do not split into frames by declared length: %v", dirName, err)
			return frames
		}
		if len(rest) > 0 {
			r.Violate(P, "wire", "legacy-trailing:"+dirName, "%s: %d trailing bytes after the last complete frame", dirName, len(rest))
		}
		for _, f := range frames {
			if f.H.Version != versionByte(v) {
				r.Violate(P, "wire", "version-byte:"+dirName, "%s: frame with version byte %d on a %v connection", dirName, f.H.Version, v)
			}
		}
		return frames
	}
	frames, _, _ := RSplitFrames(stream[:minInt(len(stream), 1<<16)])
	if len(frames) < legacyFrames {
		r.Violate(P, "wire", "handshake-not-unframed:"+dirName, "%s: expected %d unframed handshake envelope(s) at the start of the stream, found %d", dirName, legacyFrames, len(frames))
		return nil
	}
	envs = append(envs, frames[:legacyFrames]...)
	base := frames[legacyFrames-1].End
	lz4On := comp == primitive.CompressionLz4
	segs, rest, err := RSplitSegments(stream[base:], lz4On)
	if err != nil {
		r.Violate(P, "wire", "segment-invalid:"+dirName, "%s: after the unframed handshake the stream is not a sequence of valid v5 segments: %v", dirName, err)
		return envs
	}
	if len(rest) > 0 {
		r.Violate(P, "wire", "segment-trailing:"+dirName, "%s: %d trailing bytes after the last complete segment", dirName, len(rest))
	}
	var partial []byte
	for si, s := range segs {
		if s.SelfContained {
			if len(partial) > 0 {
				r.Violate(P, "wire", "segment-interleaved:"+dirName, "%s: self-contained segment %d arrives while a split envelope is incomplete", dirName, si)
			}
			fr, rest, err := RSplitFrames(s.Payload)
			if err != nil || len(rest) > 0 {
				r.Violate(P, "wire", "segment-payload:"+dirName, "%s: payload of self-contained segment %d is not a whole number of envelopes (err=%v, %d bytes left)", dirName, si, err, len(rest))
			}
			envs = append(envs, fr...)
		} else {
			partial = append(partial, s.Payload...)
			fr, rest, err := RSplitFrames(partial)
			if err == nil && len(fr) > 0 && len(rest) == 0 {
				envs = append(envs, fr...)
				partial = nil
			}
		}
	}
	for i, e := range envs {
		if i >= legacyFrames && e.H.Flags&RFlagCompressed != 0 {
			r.Violate(P, "wire", "envelope-compressed-in-segment:"+dirName, "%s: envelope %d (opcode 0x%02x, stream %d) inside a v5 segment carries the COMPRESSED flag; v5 compresses at the segment level only", dirName, i, e.H.Opcode, e.H.Stream)
			break
		}
	}
	return envs
}

type c15Env struct {
	r      *Run
	v      primitive.ProtocolVersion
	comp   primitive.Compression
	auth   bool
	a, b   *Conn
	cc     *client.CqlClientConnection
	sc     *client.CqlServerConnection
	cancel context.CancelFunc
	opts   LinkOpts
}

func c15Setup(r *Run) *c15Env {
	T := r.T
	e := &c15Env{r: r}
	e.v = r.DrawVersion()
	e.comp = r.DrawCompression(e.v)
	e.auth = T.Bool("auth", 0.3)
	e.opts = LinkOpts{
		Capacity:   []int{1 << 20, 256, 65536, 13}[T.DrawP("capacity", 4, 0.6)],
		Latency:    ms([]int{0, 1, 20}[T.Draw("latency", 3)]),
		ChunkReads: T.Bool("chunkReads", 0.5),
	}
	r.Config["version"] = e.v.String()
	r.Config["compression"] = string(e.comp)
	r.Config["auth"] = fmt.Sprint(e.auth)
	e.a, e.b = r.Net.Pair("L", r.Net.NewClientAddr(), mustAddr("10.0.0.2:9042"), e.opts)
	return e
}

func c15Exchange(r *Run) {
	const P = "C15"
	e := c15Setup(r)
	T := r.T
	nReq := 1 + T.Draw("nreq", 8)
	pipeline := 1 + T.Draw("pipeline", 4)
	big := T.Bool("bigframes", 0.25) && e.opts.Capacity >= 4096 // tiny link capacities cost several steps per byte
	compressible := T.Bool("compressible", 0.5)
	// burst: every request is handed to Send before any response is awaited, so several (possibly
	// large) envelopes sit in the outgoing queue at the same moment
	burst := T.Bool("burst", 0.25)
	if burst {
		pipeline = nReq
		if T.Bool("burst.big", 0.6) && e.opts.Capacity >= 4096 {
			big = true // several large envelopes queued at the same moment is what a burst is for
			if nReq < 4 {
				nReq, pipeline = 4, 4
			}
		}
	}
	r.Config["requests"] = fmt.Sprint(nReq)
	r.Config["pipeline"] = fmt.Sprint(pipeline)
	r.Config["burst"] = fmt.Sprint(burst)
	maxBytes := 2000
	bigChance := 0.3
	if big {
		maxBytes = 120000 // the client does not split envelopes: stay below the v5 segment payload limit
		if burst {
			bigChance = 0.95
		}
	}
	var creds *client.AuthCredentials
	clientCreds := creds
	wrongCreds := false
	if e.auth {
		creds = &client.AuthCredentials{Username: "user1", Password: "pass1"}
		clientCreds = creds
		// the wrong password: the server's ERROR response to AUTH_RESPONSE has to reach the client request
		if wrongCreds = T.Bool("wrongcreds", 0.3); wrongCreds {
			clientCreds = &client.AuthCredentials{Username: "user1", Password: "not-the-password"}
		}
	}
	r.Config["wrong_credentials"] = fmt.Sprint(wrongCreds)
	ctx, cancel := context.WithCancel(context.Background())
	// generate all frames up front (draw order independent of scheduling)
	reqs := make([]*frame.Frame, nReq)
	resps := make([]*frame.Frame, nReq)
	for i := range reqs {
		reqs[i] = GenFrame(T, GenOpts{Version: e.v, Requests: true, NoStartup: true, MaxBytes: maxBytes, BigChance: bigChance, Compressible: compressible, HeaderFlags: true, AllowTracingOnRequests: true}, client.ManagedStreamId)
		resps[i] = GenFrame(T, GenOpts{Version: e.v, Responses: true, NoEvents: true, MaxBytes: maxBytes, BigChance: 0.3, Compressible: compressible, HeaderFlags: true}, 0)
		if e.comp != primitive.CompressionNone && T.Bool("compressflag", 0.6) {
			reqs[i].SetCompress(true)
		}
		// a fatal ERROR response would legitimately make the client close the connection
		if em, ok := resps[i].Body.Message.(message.Error); ok && em.GetErrorCode().IsFatalError() {
			resps[i] = frame.NewFrame(e.v, 0, &message.VoidResult{})
		}
	}
	// one response whose encoded envelope has an exact size at the edge of what one v5 segment carries
	// (131071 payload bytes) or of the 64 KiB boundary
	if e.opts.Capacity >= 4096 && T.Bool("edgesize", 0.25) {
		targets := []int{131071, 131070, 131066, 131060, 131059, 131058, 131000, 65537, 65536, 65535}
		target := targets[T.Draw("edgesize.target", len(targets))]
		k := T.Draw("edgesize.which", nReq)
		probe := pageFramePadded(e.v, 0, "edge", 0, 1, 1)
		var pb bytes.Buffer
		if err := frame.NewRawCodec().EncodeFrame(probe, &pb); err == nil && target > pb.Len() {
			resps[k] = pageFramePadded(e.v, 0, "edge", 0, 1, 1+target-pb.Len())
			r.Config["edge_size_response"] = fmt.Sprint(target)
			r.Probes["responses_of_exact_edge_size"]++
		}
	}
	wantReq := make([]*frame.Frame, nReq)
	wantResp := make([]*frame.Frame, nReq)
	gotReq := make([]*frame.Frame, 0, nReq)
	gotResp := make([]*frame.Frame, nReq)
	var recvErrs []string
	done := false
	hsOK := false
	lateLost := ""
	r.Go("main", func() {
		var err error
		e.cc, err = client.VerifNewClientConnection(e.a, ctx, clientCreds, e.comp, 64, 4, time.Hour, nil)
		if err != nil {
			return
		}
		e.sc, err = client.VerifNewServerConnection(e.b, ctx, creds, 64, 10*time.Hour, nil, nil, func(*client.CqlServerConnection) {})
		if err != nil {
			return
		}
		r.Cleanup(func() { _ = e.cc.Close(); _ = e.sc.Close(); cancel() })
		hs := make(doneChan)
		var hsErr error
		r.Go("hsServer", func() { defer close(hs); hsErr = e.sc.AcceptHandshake(); r.Yield("hs.s") })
		err = e.cc.InitiateHandshake(e.v, client.ManagedStreamId)
		r.Yield("hs.c")
		<-hs
		r.Yield("hs.joined")
		if wrongCreds {
			// the handshake has to fail, and on the client side it has to fail BECAUSE the server's ERROR
			// response arrived: the response to AUTH_RESPONSE reaches the request that sent it
			r.Probes["handshakes_with_wrong_credentials"]++
			if err == nil {
				r.Violate(P, "handshake", "wrong-credentials-accepted", "handshake with a wrong password succeeded on the client side (server: %v)", hsErr)
			} else if !strings.Contains(err.Error(), "expected AUTH_CHALLENGE or AUTH_SUCCESS, got") {
				r.Violate(P, "handshake", "auth-error-response-lost", "wrong password: the server's ERROR response to AUTH_RESPONSE did not reach the client request (version %v, compression %v): client handshake failed with %q instead of reporting the response it got", e.v, e.comp, err.Error())
			}
			done = true
			return
		}
		if err != nil || hsErr != nil {
			r.Violate(P, "handshake", "failed", "fault-free handshake failed (version %v, compression %v, auth %v): client=%v server=%v", e.v, e.comp, e.auth, err, hsErr)
			return
		}
		hsOK = true
		var wg sync.WaitGroup
		wg.Add(1)
		r.Go("server", func() {
			defer wg.Done()
			for i := 0; i < nReq; i++ {
				f, err := e.sc.Receive()
				r.Yield("srv.recv")
				if err != nil {
					recvErrs = append(recvErrs, fmt.Sprintf("server Receive #%d: %v", i, err))
					return
				}
				gotReq = append(gotReq, f.DeepCopy())
				// answer on the same stream id; requests are matched to responses by arrival order,
				// which equals send order on one connection
				resp := resps[i]
				resp.Header.StreamId = f.Header.StreamId
				wantResp[i] = resp.DeepCopy()
				if err := e.sc.Send(resp); err != nil {
					recvErrs = append(recvErrs, fmt.Sprintf("server Send #%d: %v", i, err))
					return
				}
				r.Yield("srv.sent")
			}
		})
		// client: a window of `pipeline` outstanding requests, sent strictly in order by one task
		type pend struct {
			i   int
			req client.InFlightRequest
		}
		var pending []pend
		for i := 0; i < nReq; i++ {
			req, err := e.cc.Send(reqs[i])
			r.Yield("cli.sent")
			if err != nil || req == nil {
				recvErrs = append(recvErrs, fmt.Sprintf("client Send #%d: %v", i, err))
				break
			}
			// the connection assigns the stream id on Send: the expected frame is the frame as sent
			wantReq[i] = reqs[i].DeepCopy()
			pending = append(pending, pend{i, req})
			for len(pending) >= pipeline || (i == nReq-1 && len(pending) > 0) {
				p := pending[0]
				pending = pending[1:]
				f, err := e.cc.Receive(p.req)
				r.Yield("cli.recv")
				if err != nil {
					recvErrs = append(recvErrs, fmt.Sprintf("client Receive #%d: %v", p.i, err))
					continue
				}
				if f != nil {
					gotResp[p.i] = f.DeepCopy()
				}
			}
		}
		wg.Wait()
		r.Yield("server.joined")
		if len(recvErrs) == 0 && T.Bool("latereceive", 0.3) {
			// one more request whose answer has ARRIVED before the connection ends and is only asked for
			// afterwards: a delivered response stays with its request
			if req, err := e.cc.Send(queryFrame(e.v, client.ManagedStreamId, "late")); err == nil && req != nil {
				r.Yield("late.sent")
				if f, err := e.sc.Receive(); err == nil && f != nil {
					_ = e.sc.Send(pageFrame(e.v, f.Header.StreamId, "late", 0, 1))
					for k := 0; k < 200 && !req.IsDone(); k++ {
						r.Sleep(100 * time.Millisecond)
					}
					if req.IsDone() && req.Err() == nil {
						how := []string{"the client closes the connection", "the server closes its end", "the client's context is cancelled"}[T.Draw("late.end", 3)]
						switch how[4] {
						case 'c':
							if how[11] == 'c' {
								_ = e.cc.Close()
							} else {
								cancel()
							}
						default:
							_ = e.sc.Close()
						}
						r.Sleep(2 * time.Second)
						got, err := e.cc.Receive(req)
						r.Yield("late.recv")
						r.Probes["response_asked_for_after_the_connection_ended"]++
						if err != nil || got == nil || pageTag(got) != "late#0" {
							lateLost = fmt.Sprintf("a response that had been delivered to its request before %s was not returned by Receive afterwards: frame=%v err=%v", how, got != nil, err)
						}
					}
				}
			}
		}
		done = true
	})
	if !r.Drive() {
		r.Violate(P, "liveness", "step-budget", "run did not quiesce")
		return
	}
	if !hsOK {
		return
	}
	if lateLost != "" {
		r.Violate(P, "exchange", "delivered-response-lost-at-close", "%s (version %v, compression %v)", lateLost, e.v, e.comp)
	}
	kinds := []string{}
	for i := range reqs {
		kinds = append(kinds, KindOf(reqs[i].Body.Message)+">"+KindOf(resps[i].Body.Message))
	}
	if len(recvErrs) > 0 {
		r.Violate(P, "exchange", "error:"+c15ErrClass(recvErrs[0]), "fault-free exchange failed (version %v, compression %v): %s; frames: %v", e.v, e.comp, strings.Join(recvErrs, "; "), kinds)
	} else if !done {
		r.Violate(P, "liveness", "stuck", "fault-free exchange did not finish: somebody is blocked at quiescence (version %v, compression %v); frames: %v", e.v, e.comp, kinds)
	}
	for i := 0; i < nReq && i < len(gotReq); i++ {
		if wantReq[i] == nil {
			continue
		}
		if ok, diff := FramesEqual(wantReq[i], gotReq[i], true); !ok {
			r.Violate(P, "equality", "request-differs:"+KindOf(reqs[i].Body.Message), "request %d (%s, version %v, compression %v) was received by the server different from what was sent: %s", i, KindOf(reqs[i].Body.Message), e.v, e.comp, diff)
		}
	}
	for i := 0; i < nReq; i++ {
		if wantResp[i] == nil || gotResp[i] == nil {
			continue
		}
		if ok, diff := FramesEqual(wantResp[i], gotResp[i], true); !ok {
			r.Violate(P, "equality", "response-differs:"+KindOf(resps[i].Body.Message), "response %d (%s, version %v, compression %v) was received by the client different from what was sent: %s", i, KindOf(resps[i].Body.Message), e.v, e.comp, diff)
		}
	}
	// wire oracle on both taps
	legacyC2S := 1
	legacyS2C := 1
	wireOracle(r, P, "client->server", e.a.Tap().Sent, e.v, e.comp, legacyC2S)
	wireOracle(r, P, "server->client", e.b.Tap().Sent, e.v, e.comp, legacyS2C)
	r.Nontrivial = len(gotReq) > 0 && r.repoSwitches > 0
	for _, k := range kinds {
		r.Probes["kind:"+k]++
	}
	if r.Spec.Trace {
		r.Sample = map[string]interface{}{"frames": kinds, "bytes_c2s": len(e.a.Tap().Sent), "bytes_s2c": len(e.b.Tap().Sent)}
	}
}

func c15ErrClass(s string) string {
	for _, k := range []string{"server Receive", "server Send", "client Send", "client Receive"} {
		if strings.HasPrefix(s, k) {
			return strings.ReplaceAll(k, " ", "-")
		}
	}
	return "other"
}

// ---- raw client against the real server ----

func c15Cell(tag string, n int, compressible bool, seed uint64) []byte {
	b := make([]byte, n)
	s := seed | 1
	for i := range b {
		if compressible {
			b[i] = "abcdefgh"[i%8]
		} else {
			b[i] = byte(splitmix(&s))
		}
	}
	return append([]byte(tag+"|"), b...)
}

func c15RawClient(r *Run) {
	const P = "C15"
	e := c15Setup(r)
	T := r.T
	n := 1 + T.Draw("nreq", 8)
	// handler mode: the server connection is driven by request handlers only (handshake handler + an
	// echoing handler) and nobody calls Receive, as in the library's own handler tests; the connection
	// sees more frames over its lifetime than its MaxInFlight (the size of the Receive queue)
	handlerMode := T.Bool("handlermode", 0.3)
	srvMaxInFlight := 64
	if handlerMode {
		srvMaxInFlight = 2 + T.Draw("handlermode.maxinflight", 6)
		n = srvMaxInFlight + T.Draw("handlermode.extra", 8)
	}
	r.Config["server_mode"] = map[bool]string{false: "application calls Receive", true: fmt.Sprintf("request handlers only, MaxInFlight %d", srvMaxInFlight)}[handlerMode]
	r.Config["requests"] = fmt.Sprint(n)
	ctx, cancel := context.WithCancel(context.Background())
	peer := NewRawPeer(r, e.a, versionByte(e.v))
	type sent struct {
		tag   string
		query string
	}
	var plan []sent
	for i := 0; i < n; i++ {
		size := T.DrawGeo("qsize", 400)
		if T.Bool("qbig", 0.2) && e.opts.Capacity >= 4096 {
			size = 1000 + T.Draw("qbigsize", 400000)
		}
		tag := fmt.Sprintf("rq%d", i)
		plan = append(plan, sent{tag, string(c15Cell(tag, size, T.Bool("qcomp", 0.5), uint64(i+1)))})
	}
	var got []string
	var errs []string
	done := false
	var respEnvs []RFrame
	r.Go("main", func() {
		var err error
		var handlers []client.RequestHandler
		if handlerMode {
			served := 0
			handlers = []client.RequestHandler{client.HandshakeHandler, func(req *frame.Frame, _ *client.CqlServerConnection, _ client.RequestHandlerContext) *frame.Frame {
				q, ok := req.Body.Message.(*message.Query)
				if !ok {
					return nil
				}
				got = append(got, q.Query)
				served++
				return pageFrame(e.v, req.Header.StreamId, fmt.Sprintf("rq%d", req.Header.StreamId-1), 0, 1)
			}}
		}
		e.sc, err = client.VerifNewServerConnection(e.b, ctx, nil, srvMaxInFlight, 10*time.Hour, handlers, nil, func(*client.CqlServerConnection) {})
		if err != nil {
			return
		}
		r.Cleanup(func() { _ = e.sc.Close(); cancel(); _ = e.a.Close() })
		hs := make(doneChan)
		var hsErr error
		if handlerMode {
			close(hs) // the handshake handler answers STARTUP
		} else {
			r.Go("hsServer", func() { defer close(hs); hsErr = e.sc.AcceptHandshake(); r.Yield("hs.s") })
		}
		err = peer.ClientHandshake(compName(e.comp), 1)
		r.Yield("hs.c")
		<-hs
		r.Yield("hs.joined")
		if err != nil || hsErr != nil {
			r.Violate(P, "handshake", "failed:rawclient", "handshake between a raw client and the real server failed (version %v, compression %v): raw=%v server=%v", e.v, e.comp, err, hsErr)
			return
		}
		var wg sync.WaitGroup
		wg.Add(1)
		r.Go("server", func() {
			defer wg.Done()
			if handlerMode {
				return
			}
			for i := 0; i < n; i++ {
				f, err := e.sc.Receive()
				r.Yield("srv.recv")
				if err != nil {
					errs = append(errs, fmt.Sprintf("server Receive #%d: %v", i, err))
					return
				}
				q, ok := f.Body.Message.(*message.Query)
				if !ok {
					errs = append(errs, fmt.Sprintf("server Receive #%d: got %T", i, f.Body.Message))
					return
				}
				got = append(got, q.Query)
				if err := e.sc.Send(pageFrame(e.v, f.Header.StreamId, fmt.Sprintf("rq%d", i), 0, 1)); err != nil {
					errs = append(errs, fmt.Sprintf("server Send #%d: %v", i, err))
				}
				r.Yield("srv.sent")
			}
		})
		// the raw client sends its envelopes in drawn batches (one SendEnvelopes call = one packing decision)
		readOne := func(j int) bool {
			f, err := peer.ReadFrame()
			r.Yield("raw.recv")
			if err != nil {
				errs = append(errs, fmt.Sprintf("raw client read #%d: %v", j, err))
				return false
			}
			body, err := peer.DecodeBody(f)
			if err != nil {
				errs = append(errs, fmt.Sprintf("raw client body #%d: %v", j, err))
				return false
			}
			f.Body = body
			respEnvs = append(respEnvs, f)
			return true
		}
		i := 0
		for i < n {
			k := 1 + T.Draw("batch", 4)
			if handlerMode && k > srvMaxInFlight {
				k = srvMaxInFlight // never more outstanding requests than the server's queues hold
			}
			if i+k > n {
				k = n - i
			}
			var envs [][]byte
			for j := i; j < i+k; j++ {
				envs = append(envs, peer.Envelope(false, 0, int16(j+1), ROpQuery, RBodyQuery(peer.Version, plan[j].query, 1), T.Bool("rawcompress", 0.4)))
			}
			if err := peer.SendEnvelopes(envs); err != nil {
				errs = append(errs, fmt.Sprintf("raw client write: %v", err))
				break
			}
			r.Yield("raw.sent")
			if handlerMode {
				// the answers to this window before the next one is sent
				for j := i; j < i+k && len(errs) == 0; j++ {
					readOne(j)
				}
				if len(errs) > 0 {
					break
				}
			}
			i += k
		}
		// read the n responses back
		for j := 0; !handlerMode && j < n && len(errs) == 0; j++ {
			if !readOne(j) {
				break
			}
		}
		wg.Wait()
		r.Yield("server.joined")
		done = true
	})
	if !r.Drive() {
		r.Violate(P, "liveness", "step-budget", "run did not quiesce")
		return
	}
	for k, v := range peer.SegStats {
		r.Probes[k] += v
	}
	if e.sc == nil {
		return
	}
	if len(errs) > 0 {
		r.Violate(P, "rawclient", "error:"+c15ErrClass(errs[0]), "raw client -> real server (version %v, compression %v): %s", e.v, e.comp, strings.Join(errs, "; "))
	} else if !done {
		r.Violate(P, "liveness", "stuck:rawclient", "raw client -> real server exchange did not finish (version %v, compression %v): delivered %d of %d", e.v, e.comp, len(got), n)
	}
	if handlerMode {
		// handlers run concurrently: order of arrival at the handler and of the responses is free
		sort.Strings(got)
		sort.Slice(respEnvs, func(a, b int) bool { return respEnvs[a].H.Stream < respEnvs[b].H.Stream })
		want := make([]string, 0, len(plan))
		for _, p := range plan[:minInt(len(plan), len(got))] {
			want = append(want, p.query)
		}
		sort.Strings(want)
		for i := range got {
			if got[i] != want[i] {
				r.Violate(P, "equality", "rawclient-request-differs", "the requests handed to the server's request handler are not the requests the raw client sent (first difference in sorted order at %d)", i)
				break
			}
		}
	}
	for i := range got {
		if handlerMode {
			break
		}
		if got[i] != plan[i].query {
			r.Violate(P, "equality", "rawclient-request-differs", "request %d sent by the raw client (%d bytes) was delivered to the server application as %d bytes / different content or out of order", i, len(plan[i].query), len(got[i]))
			break
		}
	}
	for j, f := range respEnvs {
		cell, _, _, err := RParseRowsSingleCell(f.Body)
		if err != nil || string(cell) != fmt.Sprintf("rq%d#0", j) {
			r.Violate(P, "equality", "rawclient-response-differs", "response %d read by the raw client does not decode to the Rows result the server sent: cell=%q err=%v", j, cell, err)
			break
		}
		if f.H.Stream != int16(j+1) || !f.H.Response || f.H.Version != peer.Version {
			r.Violate(P, "wire", "rawclient-response-header", "response %d has stream %d response=%v version %d", j, f.H.Stream, f.H.Response, f.H.Version)
		}
	}
	wireOracle(r, P, "server->rawclient", e.b.Tap().Sent, e.v, e.comp, 1)
	r.Nontrivial = len(got) > 0
	if r.Spec.Trace {
		r.Sample = map[string]interface{}{"requests": n, "delivered": len(got), "segstats": peer.SegStats}
	}
}

// ---- raw server against the real client ----

func c15RawServer(r *Run) {
	const P = "C15"
	e := c15Setup(r)
	T := r.T
	n := 1 + T.Draw("nreq", 8)
	r.Config["requests"] = fmt.Sprint(n)
	// quiet: the client has a short read timeout (5 s) and, after the exchange, nothing is sent for 30 s;
	// a connection with no request in flight has nothing to time out: one more exchange must work
	quiet := T.Bool("quiet", 0.25)
	readTimeout := time.Hour
	if quiet {
		readTimeout = 5 * time.Second
	}
	r.Config["quiet_period"] = fmt.Sprint(quiet)
	ctx, cancel := context.WithCancel(context.Background())
	peer := NewRawPeer(r, e.b, versionByte(e.v))
	cells := make([][]byte, n)
	for i := range cells {
		size := T.DrawGeo("csize", 400)
		if T.Bool("cbig", 0.2) && e.opts.Capacity >= 4096 && !quiet {
			size = 1000 + T.Draw("cbigsize", 400000)
		}
		cells[i] = c15Cell(fmt.Sprintf("rs%d", i), size, T.Bool("ccomp", 0.5), uint64(i+7))
	}
	got := make([][]byte, n)
	var errs []string
	done := false
	var reqEnvs []RFrame
	r.Go("main", func() {
		var err error
		e.cc, err = client.VerifNewClientConnection(e.a, ctx, nil, e.comp, 64, 4, readTimeout, nil)
		if err != nil {
			return
		}
		r.Cleanup(func() { _ = e.cc.Close(); cancel(); _ = e.b.Close() })
		hs := make(doneChan)
		var hsErr error
		r.Go("hsPeer", func() { defer close(hs); hsErr = peer.ServerHandshake(); r.Yield("hs.s") })
		err = e.cc.InitiateHandshake(e.v, client.ManagedStreamId)
		r.Yield("hs.c")
		<-hs
		r.Yield("hs.joined")
		if err != nil || hsErr != nil {
			r.Violate(P, "handshake", "failed:rawserver", "handshake between the real client and a raw server failed (version %v, compression %v): client=%v raw=%v", e.v, e.comp, err, hsErr)
			return
		}
		// client sends all requests (tagged QUERY), then the raw server answers them in batches
		inflight := make([]client.InFlightRequest, n)
		for i := 0; i < n; i++ {
			f := queryFrame(e.v, client.ManagedStreamId, fmt.Sprintf("rs%d", i))
			if e.comp != primitive.CompressionNone && T.Bool("compressflag", 0.5) {
				f.SetCompress(true)
			}
			req, err := e.cc.Send(f)
			r.Yield("cli.sent")
			if err != nil || req == nil {
				errs = append(errs, fmt.Sprintf("client Send #%d: %v", i, err))
				return
			}
			inflight[i] = req
		}
		var wg sync.WaitGroup
		wg.Add(1)
		r.Go("rawserver", func() {
			defer wg.Done()
			ids := make([]int16, n)
			for i := 0; i < n; i++ {
				f, err := peer.ReadFrame()
				r.Yield("raw.recv")
				if err != nil {
					errs = append(errs, fmt.Sprintf("raw server read #%d: %v", i, err))
					return
				}
				body, err := peer.DecodeBody(f)
				if err != nil {
					errs = append(errs, fmt.Sprintf("raw server body #%d: %v", i, err))
					return
				}
				f.Body = body
				reqEnvs = append(reqEnvs, f)
				q, _ := RParseQuery(body)
				var idx int
				if _, err := fmt.Sscanf(q, "rs%d", &idx); err != nil || idx < 0 || idx >= n {
					errs = append(errs, fmt.Sprintf("raw server: request %d does not carry its tag: %q", i, q))
					return
				}
				ids[idx] = f.H.Stream
			}
			i := 0
			for i < n {
				k := 1 + T.Draw("batch", 4)
				if i+k > n {
					k = n - i
				}
				var envs [][]byte
				for j := i; j < i+k; j++ {
					envs = append(envs, peer.Envelope(true, 0, ids[j], ROpResult, RBodyResultRows(1, [][][]byte{{cells[j]}}, 0, false), T.Bool("rawcompress", 0.4)))
				}
				if err := peer.SendEnvelopes(envs); err != nil {
					errs = append(errs, fmt.Sprintf("raw server write: %v", err))
					return
				}
				r.Yield("raw.sent")
				i += k
			}
		})
		for i := 0; i < n; i++ {
			f, err := e.cc.Receive(inflight[i])
			r.Yield("cli.recv")
			if err != nil {
				errs = append(errs, fmt.Sprintf("client Receive #%d: %v", i, err))
				break
			}
			if f == nil {
				errs = append(errs, fmt.Sprintf("client Receive #%d: closed without a frame", i))
				break
			}
			if rows, ok := f.Body.Message.(*message.RowsResult); ok && len(rows.Data) == 1 && len(rows.Data[0]) == 1 {
				got[i] = rows.Data[0][0]
			} else {
				errs = append(errs, fmt.Sprintf("client Receive #%d: unexpected message %T", i, f.Body.Message))
			}
		}
		wg.Wait()
		r.Yield("rawserver.joined")
		if quiet && len(errs) == 0 {
			r.Sleep(30 * time.Second)
			r.Probes["quiet_periods_longer_than_the_read_timeout"]++
			var wg2 sync.WaitGroup
			wg2.Add(1)
			r.Go("rawserver.afterquiet", func() {
				defer wg2.Done()
				f, err := peer.ReadFrame()
				r.Yield("raw.recv2")
				if err != nil {
					errs = append(errs, fmt.Sprintf("raw server read after the quiet period: %v", err))
					return
				}
				if err := peer.SendEnvelopes([][]byte{peer.Envelope(true, 0, f.H.Stream, ROpResult, RBodyResultRows(1, [][][]byte{{[]byte("after-quiet")}}, 0, false), false)}); err != nil {
					errs = append(errs, fmt.Sprintf("raw server write after the quiet period: %v", err))
				}
			})
			if req, err := e.cc.Send(queryFrame(e.v, client.ManagedStreamId, "after-quiet")); err != nil || req == nil {
				errs = append(errs, fmt.Sprintf("client Send after a quiet period of 30 s (read timeout %v): %v", readTimeout, err))
				_ = e.b.Close()
			} else if f, err := e.cc.Receive(req); err != nil || f == nil || pageTag(f) != "after-quiet" {
				errs = append(errs, fmt.Sprintf("client Receive after a quiet period of 30 s (read timeout %v): frame=%v err=%v", readTimeout, f != nil, err))
				_ = e.b.Close()
			}
			wg2.Wait()
		}
		done = true
	})
	if !r.Drive() {
		r.Violate(P, "liveness", "step-budget", "run did not quiesce")
		return
	}
	for k, v := range peer.SegStats {
		r.Probes[k] += v
	}
	if e.cc == nil {
		return
	}
	if len(errs) > 0 {
		r.Violate(P, "rawserver", "error:"+c15ErrClass(errs[0]), "real client <- raw server (version %v, compression %v): %s", e.v, e.comp, strings.Join(errs, "; "))
	} else if !done {
		r.Violate(P, "liveness", "stuck:rawserver", "real client <- raw server exchange did not finish (version %v, compression %v)", e.v, e.comp)
	}
	for i := range got {
		if got[i] != nil && !bytes.Equal(got[i], cells[i]) {
			r.Violate(P, "equality", "rawserver-response-differs", "response %d (%d bytes) sent by the raw server reached the request as %d bytes / different content", i, len(cells[i]), len(got[i]))
			break
		}
	}
	wireOracle(r, P, "client->rawserver", e.a.Tap().Sent, e.v, e.comp, 1)
	r.Nontrivial = len(reqEnvs) > 0
	if r.Spec.Trace {
		r.Sample = map[string]interface{}{"requests": n, "segstats": peer.SegStats}
	}
}
