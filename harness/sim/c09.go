package sim

import (
	"context"
	"fmt"
	"sort"
	"strings"
	"time"

	"github.com/anishathalye/porcupine"
	"github.com/datastax/go-cassandra-native-protocol/client"
	"github.com/datastax/go-cassandra-native-protocol/frame"
	"github.com/datastax/go-cassandra-native-protocol/message"
	"github.com/datastax/go-cassandra-native-protocol/primitive"
)

// C09 — stream ids: unique while in flight, bounded, recycled, refused when exhausted
// (DESIGN.md §5 C09). Scenario "ids": concurrent senders and a deliverer on the real in-flight
// handler (through the generated export shim); the recorded history is checked for linearizability
// against a sequential model with porcupine.

func init() {
	Register(&Scenario{Name: "ids", Property: "C09", Body: c09Ids})
	props["C09"] = &propDef{Case: func(w *Worker, i int) {
		w.Exec(RunSpec{Scenario: "ids", Index: i})
	}}
}

type idIn struct {
	Op    string // enqM, enqX, dlv, close
	K     int16
	Final bool
}

type idOut struct {
	ID  int16
	Err bool
}

type idState struct {
	S      string // sorted ids, comma separated
	Closed bool
}

func encSet(m map[int16]bool) string {
	ks := make([]int, 0, len(m))
	for k := range m {
		ks = append(ks, int(k))
	}
	sort.Ints(ks)
	var b strings.Builder
	for _, k := range ks {
		fmt.Fprintf(&b, "%d,", k)
	}
	return b.String()
}

func decSet(s string) map[int16]bool {
	m := map[int16]bool{}
	for _, p := range strings.Split(s, ",") {
		if p == "" {
			continue
		}
		var k int
		fmt.Sscan(p, &k)
		m[int16(k)] = true
	}
	return m
}

// idsModel is the sequential specification, written from the property statement only:
// state = set of unanswered ids + closed flag. A refusal of a send is always legal (the statement
// says when a send MUST be refused, not that it is refused only then); a successful send is legal
// only if it respects uniqueness, the range 1..N for managed ids and the bound N.
func idsModel(N int) porcupine.Model {
	return porcupine.Model{
		Init: func() interface{} { return idState{} },
		Step: func(state, input, output interface{}) (bool, interface{}) {
			st := state.(idState)
			in := input.(idIn)
			out := output.(idOut)
			s := decSet(st.S)
			switch in.Op {
			case "enqM":
				if out.Err {
					return true, st
				}
				if st.Closed || out.ID < 1 || int(out.ID) > N || s[out.ID] || len(s) >= N {
					return false, st
				}
				s[out.ID] = true
				return true, idState{encSet(s), st.Closed}
			case "enqX":
				if out.Err {
					return true, st
				}
				if st.Closed || s[in.K] || len(s) >= N {
					return false, st
				}
				s[in.K] = true
				return true, idState{encSet(s), st.Closed}
			case "dlv":
				if out.Err {
					// an error is legal iff nobody waits for that id (unknown stream id), or the
					// handler is closed
					return !s[in.K] || st.Closed, st
				}
				if !s[in.K] || st.Closed {
					return false, st
				}
				if in.Final {
					delete(s, in.K)
				}
				return true, idState{encSet(s), st.Closed}
			case "close":
				return true, idState{st.S, true}
			}
			return false, st
		},
		Equal: func(a, b interface{}) bool { return a.(idState) == b.(idState) },
		DescribeOperation: func(i, o interface{}) string {
			return fmt.Sprintf("%+v -> %+v", i, o)
		},
	}
}

func responseFor(v primitive.ProtocolVersion, id int16, final bool, page int) *frame.Frame {
	if final && page == 0 {
		return frame.NewFrame(v, id, &message.VoidResult{})
	}
	md := &message.RowsMetadata{ColumnCount: 1, ContinuousPageNumber: int32(page + 1), LastContinuousPage: final}
	return frame.NewFrame(v, id, &message.RowsResult{Metadata: md, Data: message.RowSet{}})
}

func c09Ids(r *Run) {
	const P = "C09"
	T := r.T
	Ns := []int{2, 1, 3, 4, 8, 64}
	N := Ns[T.Draw("N", len(Ns))]
	if r.Spec.Tier == "thorough" && T.Draw("bigN", 100) == 99 {
		N = 32767
	}
	explicit := T.Bool("explicit", 0.35)
	nSenders := 1 + T.Draw("senders", 4)
	withCloser := T.Bool("closer", 0.15)
	v := primitive.ProtocolVersionDse2
	r.Config["N"] = fmt.Sprint(N)
	r.Config["mode"] = map[bool]string{false: "managed", true: "explicit"}[explicit]
	r.Config["senders"] = fmt.Sprint(nSenders)
	r.Config["closer"] = fmt.Sprint(withCloser)

	ctx, cancel := context.WithCancel(context.Background())
	h := client.VerifNewInFlight("sim", ctx, N, 64, 1000*time.Hour)
	r.Cleanup(func() { cancel(); h.Close() })

	var ops []porcupine.Operation
	// harness view of ids believed in flight (only to bias deliveries; not an oracle)
	believed := map[int16]int{}
	rec := func(clientId int, in idIn, f func() idOut) idOut {
		call := r.Stamp()
		out := f()
		r.Yield("op.ret")
		ret := r.Stamp()
		ops = append(ops, porcupine.Operation{ClientId: clientId, Input: in, Call: call, Output: out, Return: ret})
		r.Event("c%d %s k=%d final=%v -> id=%d err=%v [%d,%d]", clientId, in.Op, in.K, in.Final, out.ID, out.Err, call, ret)
		return out
	}
	enq := func(clientId int, in idIn) {
		rec(clientId, in, func() idOut {
			f := frame.NewFrame(v, in.K, &message.Options{})
			req, err := h.Enqueue(f)
			if err != nil || req == nil {
				return idOut{Err: true}
			}
			believed[req.StreamId()]++
			return idOut{ID: req.StreamId()}
		})
	}
	type taskState struct {
		name string
		done bool
	}
	var tasks []*taskState
	for c := 0; c < nSenders; c++ {
		c := c
		n := 2 + T.Draw("nops", 7)
		plan := make([]idIn, n)
		for j := range plan {
			if explicit {
				plan[j] = idIn{Op: "enqX", K: int16(1 + T.Draw("k", N+1))}
			} else {
				plan[j] = idIn{Op: "enqM"}
			}
		}
		ts := &taskState{name: fmt.Sprintf("sender%d", c)}
		tasks = append(tasks, ts)
		r.Go(ts.name, func() {
			defer func() { ts.done = true }()
			for _, in := range plan {
				enq(c, in)
			}
		})
	}
	nd := 2 + T.Draw("ndeliver", 12)
	dt := &taskState{name: "deliverer"}
	tasks = append(tasks, dt)
	r.Go("deliverer", func() {
		defer func() { dt.done = true }()
		pages := map[int16]int{}
		for j := 0; j < nd; j++ {
			var ks []int
			for k, n := range believed {
				if n > 0 {
					ks = append(ks, int(k))
				}
			}
			sort.Ints(ks)
			var k int16
			if len(ks) > 0 && T.DrawP("dlv.known", 5, 0.2) > 0 {
				k = int16(ks[T.Draw("dlv.pick", len(ks))])
			} else {
				k = int16(1 + T.Draw("dlv.any", N+1))
			}
			final := !T.Bool("dlv.nonfinal", 0.25)
			page := pages[k]
			in := idIn{Op: "dlv", K: k, Final: final}
			out := rec(nSenders, in, func() idOut {
				if err := h.Deliver(responseFor(v, k, final, page)); err != nil {
					return idOut{Err: true}
				}
				return idOut{}
			})
			if !out.Err {
				if final {
					believed[k]--
					pages[k] = 0
				} else {
					pages[k]++
				}
			}
			if T.Bool("dlv.pause", 0.3) {
				r.Yield("dlv.pause")
			}
		}
	})
	closedByRun := false
	if withCloser {
		ct := &taskState{name: "closer"}
		tasks = append(tasks, ct)
		wait := T.Draw("closer.wait", 40)
		r.Go("closer", func() {
			defer func() { ct.done = true }()
			for i := 0; i < wait; i++ {
				r.Yield("closer.wait")
			}
			rec(nSenders+1, idIn{Op: "close"}, func() idOut {
				h.Close()
				return idOut{}
			})
			closedByRun = true
		})
	}
	if !r.Drive() {
		r.Violate(P, "liveness", "step-budget", "run did not quiesce within %d steps", r.StepBudget)
		return
	}
	// (2) refused, not blocked: every operation must have returned
	for _, t := range tasks {
		if !t.done {
			r.Violate(P, "no-block", "blocked:"+t.name, "task %s is blocked inside an in-flight handler operation at quiescence", t.name)
		}
	}
	// non-trivial: two operations of different clients overlapped
	for i := range ops {
		for j := i + 1; j < len(ops); j++ {
			if ops[i].ClientId != ops[j].ClientId && ops[i].Call < ops[j].Return && ops[j].Call < ops[i].Return {
				r.Nontrivial = true
			}
		}
	}
	// (3) recycling at the final quiescent checkpoint: with m ids unanswered and the handler open,
	// N-m further sends must all be accepted, with distinct ids not in use (managed: within 1..N).
	inUse := map[int16]int{}
	for _, o := range ops {
		in, out := o.Input.(idIn), o.Output.(idOut)
		switch {
		case (in.Op == "enqM" || in.Op == "enqX") && !out.Err:
			id := out.ID
			inUse[id]++
		case in.Op == "dlv" && in.Final && !out.Err:
			inUse[in.K]--
		}
	}
	m := 0
	sane := true
	for _, n := range inUse {
		if n > 0 {
			m++
		}
		if n < 0 || n > 1 {
			sane = false // already a uniqueness violation; porcupine reports it
		}
	}
	if !closedByRun && sane && m <= N && N <= 64 {
		want := N - m
		got := map[int16]bool{}
		var bad string
		done := false
		r.Go("recycle", func() {
			next := int16(1)
			for i := 0; i < want; i++ {
				k := int16(0)
				if explicit {
					for inUse[next] > 0 || got[next] {
						next++
					}
					k = next
				}
				req, err := h.Enqueue(frame.NewFrame(v, k, &message.Options{}))
				r.Yield("recycle.ret")
				if err != nil || req == nil {
					bad = fmt.Sprintf("send %d of %d refused although only %d of %d ids are unanswered: %v", i+1, want, m+i, N, err)
					break
				}
				id := req.StreamId()
				if inUse[id] > 0 || got[id] || (!explicit && (id < 1 || int(id) > N)) {
					bad = fmt.Sprintf("send %d of %d was given id %d which is in use or out of range 1..%d", i+1, want, id, N)
					break
				}
				got[id] = true
			}
			done = true
		})
		r.Drive()
		r.Probe("recycle_checkpoints")
		if !done {
			r.Violate(P, "no-block", "blocked:recycle", "a send blocked at the recycling checkpoint")
		} else if bad != "" {
			r.Violate(P, "recycling", "pool-not-recycled", "N=%d mode=%s: %s", N, r.Config["mode"], bad)
		}
	}
	hist := ops
	if r.Spec.Trace {
		var lines []string
		for _, o := range hist {
			lines = append(lines, fmt.Sprintf("c%d [%d,%d] %+v -> %+v", o.ClientId, o.Call, o.Return, o.Input, o.Output))
		}
		r.Sample = map[string]interface{}{"history": lines}
	}
	// (1) linearizability, checked outside the bubble (real clock)
	r.Post = func() {
		res := porcupine.CheckOperationsTimeout(idsModel(N), hist, 5*time.Second)
		switch res {
		case porcupine.Ok:
			r.Probe("porcupine_ok")
		case porcupine.Unknown:
			r.Probe("porcupine_unknown") // inconclusive, never reported
		case porcupine.Illegal:
			r.Probe("porcupine_illegal")
			r.Violate(P, "linearizable", c09Classify(N, hist), "history of %d operations on a handler with N=%d (%s ids) is not linearizable w.r.t. the stream-id model:\n%s",
				len(hist), N, r.Config["mode"], historyText(hist))
		}
	}
}

func historyText(ops []porcupine.Operation) string {
	var b strings.Builder
	for _, o := range ops {
		fmt.Fprintf(&b, "  c%d [%d,%d] %+v -> %+v\n", o.ClientId, o.Call, o.Return, o.Input, o.Output)
	}
	return b.String()
}

// c09Classify names what is wrong with an illegal history in stable terms (class discriminator).
func c09Classify(N int, ops []porcupine.Operation) string {
	// the same id accepted twice without a final delivery in between (by return order)
	sorted := append([]porcupine.Operation{}, ops...)
	sort.Slice(sorted, func(i, j int) bool { return sorted[i].Return < sorted[j].Return })
	held := map[int16]bool{}
	for _, o := range sorted {
		in, out := o.Input.(idIn), o.Output.(idOut)
		switch {
		case (in.Op == "enqM" || in.Op == "enqX") && !out.Err:
			if in.Op == "enqM" && (out.ID < 1 || int(out.ID) > N) {
				return "managed-id-out-of-range"
			}
			if held[out.ID] {
				return "duplicate-id-accepted:" + in.Op
			}
			if len(held) >= N {
				return "more-than-N-accepted"
			}
			held[out.ID] = true
		case in.Op == "dlv" && in.Final && !out.Err:
			delete(held, in.K)
		}
	}
	return "other"
}
