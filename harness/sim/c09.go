package sim

import (
	"context"
	"fmt"
	"sort"
	"strings"
	"sync"
	"time"

	"github.com/anishathalye/porcupine"
	"github.com/datastax/go-cassandra-native-protocol/client"
	"github.com/datastax/go-cassandra-native-protocol/frame"
	"github.com/datastax/go-cassandra-native-protocol/message"
	"github.com/datastax/go-cassandra-native-protocol/primitive"
)

// C09 — stream ids: unique while in flight, bounded, recycled, refused when exhausted
// (DESIGN.md §5 C09). Scenario "ids": concurrent senders and a deliverer on the real in-flight
// handler (through the generated export shim); the recorded history is checked for linearizability
// against a sequential model with porcupine.

func init() {
	Register(&Scenario{Name: "ids", Property: "C09", Body: c09Ids})
	props["C09"] = &propDef{Case: func(w *Worker, i int) {
		w.Exec(RunSpec{Scenario: "ids", Index: i})
	}}
}

type idIn struct {
	Op    string // enqM, enqX, dlv, close
	K     int16
	Final bool
	// MayRemove: a final delivery that returned an error while a close was in progress or done. The
	// delivery is not atomic (unregister, give the id back, hand the frame over): when the close lands in
	// between, the request is already unregistered - its answer HAS arrived - although the call reports
	// an error. Set by the harness from the history, see c09Ids.
	MayRemove bool
}

type idOut struct {
	ID  int16
	Err bool
}

type idState struct {
	S      string // sorted ids, comma separated
	Closed bool
}

func encSet(m map[int16]bool) string {
	ks := make([]int, 0, len(m))
	for k := range m {
		ks = append(ks, int(k))
	}
	sort.Ints(ks)
	var b strings.Builder
	for _, k := range ks {
		fmt.Fprintf(&b, "%d,", k)
	}
	return b.String()
}

func decSet(s string) map[int16]bool {
	m := map[int16]bool{}
	for _, p := range strings.Split(s, ",") {
		if p == "" {
			continue
		}
		var k int
		fmt.Sscan(p, &k)
		m[int16(k)] = true
	}
	return m
}

// idsModel is the sequential specification, written from the property statement only:
// state = set of unanswered ids + closed flag. A refusal of a send is always legal (the statement
// says when a send MUST be refused, not that it is refused only then); a successful send is legal
// only if it respects uniqueness, the range 1..N for managed ids and the bound N.
func idsModel(N int) porcupine.Model {
	return porcupine.Model{
		Init: func() interface{} { return idState{} },
		Step: func(state, input, output interface{}) (bool, interface{}) {
			st := state.(idState)
			in := input.(idIn)
			out := output.(idOut)
			s := decSet(st.S)
			switch in.Op {
			case "enqM":
				if out.Err {
					return true, st
				}
				if st.Closed || out.ID < 1 || int(out.ID) > N || s[out.ID] || len(s) >= N {
					return false, st
				}
				s[out.ID] = true
				return true, idState{encSet(s), st.Closed}
			case "enqX":
				if out.Err {
					return true, st
				}
				if st.Closed || s[in.K] || len(s) >= N {
					return false, st
				}
				s[in.K] = true
				return true, idState{encSet(s), st.Closed}
			case "dlv":
				if out.Err && in.MayRemove {
					if s[in.K] {
						delete(s, in.K)
						return true, idState{encSet(s), st.Closed}
					}
					return true, st
				}
				if out.Err {
					// an error is legal iff nobody waits for that id (unknown stream id), or the
					// handler is closed
					return !s[in.K] || st.Closed, st
				}
				if !s[in.K] || st.Closed {
					return false, st
				}
				if in.Final {
					delete(s, in.K)
				}
				return true, idState{encSet(s), st.Closed}
			case "close":
				return true, idState{st.S, true}
			}
			return false, st
		},
		Equal: func(a, b interface{}) bool { return a.(idState) == b.(idState) },
		DescribeOperation: func(i, o interface{}) string {
			return fmt.Sprintf("%+v -> %+v", i, o)
		},
	}
}

func responseFor(v primitive.ProtocolVersion, id int16, final bool, page int) *frame.Frame {
	if final && page == 0 {
		return frame.NewFrame(v, id, &message.VoidResult{})
	}
	md := &message.RowsMetadata{ColumnCount: 1, ContinuousPageNumber: int32(page + 1), LastContinuousPage: final}
	return frame.NewFrame(v, id, &message.RowsResult{Metadata: md, Data: message.RowSet{}})
}

func c09Ids(r *Run) {
	const P = "C09"
	r.LeaveCloseFamilyToC16 = true
	T := r.T
	Ns := []int{2, 1, 3, 4, 8, 64}
	N := Ns[T.Draw("N", len(Ns))]
	if r.Spec.Tier == "thorough" && T.Draw("bigN", 100) == 99 {
		N = 32767
	}
	explicit := T.Bool("explicit", 0.35)
	// mixed: managed sends and sends with caller-chosen ids on ONE handler; the chosen ids lie above N so
	// that they can never collide with a managed id (ids 1..N on the same handler would)
	mixed := !explicit && T.Bool("mixed", 0.25)
	nSenders := 1 + T.Draw("senders", 4)
	withCloser := T.Bool("closer", 0.15)
	v := primitive.ProtocolVersionDse2
	r.Config["N"] = fmt.Sprint(N)
	r.Config["mode"] = map[bool]string{false: "managed", true: "explicit"}[explicit]
	if mixed {
		r.Config["mode"] = "mixed (managed + explicit ids above N)"
	}
	r.Config["senders"] = fmt.Sprint(nSenders)
	r.Config["closer"] = fmt.Sprint(withCloser)

	ctx, cancel := context.WithCancel(context.Background())
	h := client.VerifNewInFlight("sim", ctx, N, 64, 1000*time.Hour)
	r.Cleanup(func() { cancel(); h.Close() })

	var ops []porcupine.Operation
	// harness view of ids believed in flight (only to bias deliveries; not an oracle)
	believed := map[int16]int{}
	rec := func(clientId int, in idIn, f func() idOut) idOut {
		call := r.Stamp()
		out := f()
		r.Yield("op.ret")
		ret := r.Stamp()
		ops = append(ops, porcupine.Operation{ClientId: clientId, Input: in, Call: call, Output: out, Return: ret})
		r.Event("c%d %s k=%d final=%v -> id=%d err=%v [%d,%d]", clientId, in.Op, in.K, in.Final, out.ID, out.Err, call, ret)
		return out
	}
	enq := func(clientId int, in idIn) {
		rec(clientId, in, func() idOut {
			f := frame.NewFrame(v, in.K, &message.Options{})
			req, err := h.Enqueue(f)
			if err != nil || req == nil {
				return idOut{Err: true}
			}
			believed[req.StreamId()]++
			return idOut{ID: req.StreamId()}
		})
	}
	type taskState struct {
		name string
		done bool
	}
	var tasks []*taskState
	for c := 0; c < nSenders; c++ {
		c := c
		n := 2 + T.Draw("nops", 7)
		plan := make([]idIn, n)
		for j := range plan {
			if explicit {
				plan[j] = idIn{Op: "enqX", K: int16(1 + T.Draw("k", N+1))}
			} else if mixed && T.Bool("mixed.explicit", 0.4) {
				plan[j] = idIn{Op: "enqX", K: int16(N + 1 + T.Draw("k.high", 3))}
			} else {
				plan[j] = idIn{Op: "enqM"}
			}
		}
		ts := &taskState{name: fmt.Sprintf("sender%d", c)}
		tasks = append(tasks, ts)
		r.Go(ts.name, func() {
			defer func() { ts.done = true }()
			for _, in := range plan {
				enq(c, in)
			}
		})
	}
	nd := 2 + T.Draw("ndeliver", 12)
	dt := &taskState{name: "deliverer"}
	tasks = append(tasks, dt)
	r.Go("deliverer", func() {
		defer func() { dt.done = true }()
		pages := map[int16]int{}
		for j := 0; j < nd; j++ {
			var ks []int
			for k, n := range believed {
				if n > 0 {
					ks = append(ks, int(k))
				}
			}
			sort.Ints(ks)
			var k int16
			if len(ks) > 0 && T.DrawP("dlv.known", 5, 0.2) > 0 {
				k = int16(ks[T.Draw("dlv.pick", len(ks))])
			} else {
				k = int16(1 + T.Draw("dlv.any", N+1))
				if mixed {
					k = int16(1 + T.Draw("dlv.any.mixed", N+3))
				}
			}
			final := !T.Bool("dlv.nonfinal", 0.25)
			page := pages[k]
			in := idIn{Op: "dlv", K: k, Final: final}
			out := rec(nSenders, in, func() idOut {
				if err := h.Deliver(responseFor(v, k, final, page)); err != nil {
					return idOut{Err: true}
				}
				return idOut{}
			})
			if !out.Err {
				if final {
					believed[k]--
					pages[k] = 0
				} else {
					pages[k]++
				}
			}
			if T.Bool("dlv.pause", 0.3) {
				r.Yield("dlv.pause")
			}
		}
	})
	closedByRun := false
	if withCloser {
		ct := &taskState{name: "closer"}
		tasks = append(tasks, ct)
		wait := T.Draw("closer.wait", 40)
		r.Go("closer", func() {
			defer func() { ct.done = true }()
			for i := 0; i < wait; i++ {
				r.Yield("closer.wait")
			}
			rec(nSenders+1, idIn{Op: "close"}, func() idOut {
				h.Close()
				return idOut{}
			})
			closedByRun = true
		})
	}
	if !r.Drive() {
		r.Violate(P, "liveness", "step-budget", "run did not quiesce within %d steps", r.StepBudget)
		return
	}
	r.checkPanics()
	if r.CloseFamilyPanics > 0 {
		return // the concurrent close hit the Close protocol (C16's findings): nothing further is judged
	}
	// (2) refused, not blocked: every operation must have returned
	for _, t := range tasks {
		if !t.done {
			r.Violate(P, "no-block", "blocked:"+t.name, "task %s is blocked inside an in-flight handler operation at quiescence", t.name)
		}
	}
	// non-trivial: two operations of different clients overlapped
	for i := range ops {
		for j := i + 1; j < len(ops); j++ {
			if ops[i].ClientId != ops[j].ClientId && ops[i].Call < ops[j].Return && ops[j].Call < ops[i].Return {
				r.Nontrivial = true
			}
		}
	}
	// (3) recycling at the final quiescent checkpoint: with m ids unanswered and the handler open,
	// N-m further sends must all be accepted, with distinct ids not in use (managed: within 1..N).
	inUse := map[int16]int{}
	for _, o := range ops {
		in, out := o.Input.(idIn), o.Output.(idOut)
		switch {
		case (in.Op == "enqM" || in.Op == "enqX") && !out.Err:
			id := out.ID
			inUse[id]++
		case in.Op == "dlv" && in.Final && !out.Err:
			inUse[in.K]--
		}
	}
	m := 0
	sane := true
	for _, n := range inUse {
		if n > 0 {
			m++
		}
		if n < 0 || n > 1 {
			sane = false // already a uniqueness violation; porcupine reports it
		}
	}
	if !closedByRun && sane && m <= N && N <= 64 {
		want := N - m
		got := map[int16]bool{}
		var bad string
		done := false
		r.Go("recycle", func() {
			next := int16(1)
			for i := 0; i < want; i++ {
				k := int16(0)
				if explicit {
					for inUse[next] > 0 || got[next] {
						next++
					}
					k = next
				}
				req, err := h.Enqueue(frame.NewFrame(v, k, &message.Options{}))
				r.Yield("recycle.ret")
				if err != nil || req == nil {
					bad = fmt.Sprintf("send %d of %d refused although only %d of %d ids are unanswered: %v", i+1, want, m+i, N, err)
					break
				}
				id := req.StreamId()
				if inUse[id] > 0 || got[id] || (!explicit && (id < 1 || int(id) > N)) {
					bad = fmt.Sprintf("send %d of %d was given id %d which is in use or out of range 1..%d", i+1, want, id, N)
					break
				}
				got[id] = true
			}
			done = true
		})
		r.Drive()
		r.Probe("recycle_checkpoints")
		if !done {
			r.Violate(P, "no-block", "blocked:recycle", "a send blocked at the recycling checkpoint")
		} else if bad != "" {
			r.Violate(P, "recycling", "pool-not-recycled", "N=%d mode=%s: %s", N, r.Config["mode"], bad)
		}
	}
	hist := ops
	closeCall := int64(-1)
	for _, o := range hist {
		if o.Input.(idIn).Op == "close" && (closeCall < 0 || o.Call < closeCall) {
			closeCall = o.Call
		}
	}
	if closeCall >= 0 {
		for i, o := range hist {
			if in := o.Input.(idIn); in.Op == "dlv" && in.Final && o.Output.(idOut).Err && closeCall <= o.Return {
				in.MayRemove = true
				hist[i].Input = in
			}
		}
	}
	if r.Spec.Trace {
		var lines []string
		for _, o := range hist {
			lines = append(lines, fmt.Sprintf("c%d [%d,%d] %+v -> %+v", o.ClientId, o.Call, o.Return, o.Input, o.Output))
		}
		r.Sample = map[string]interface{}{"history": lines}
	}
	// (1) linearizability, checked outside the bubble (real clock)
	r.Post = func() {
		res := porcupine.CheckOperationsTimeout(idsModel(N), hist, 5*time.Second)
		switch res {
		case porcupine.Ok:
			r.Probe("porcupine_ok")
		case porcupine.Unknown:
			r.Probe("porcupine_unknown") // inconclusive, never reported
		case porcupine.Illegal:
			r.Probe("porcupine_illegal")
			r.Violate(P, "linearizable", c09Classify(N, hist), "history of %d operations on a handler with N=%d (%s ids) is not linearizable w.r.t. the stream-id model:\n%s",
				len(hist), N, r.Config["mode"], historyText(hist))
		}
	}
}

func historyText(ops []porcupine.Operation) string {
	var b strings.Builder
	for _, o := range ops {
		fmt.Fprintf(&b, "  c%d [%d,%d] %+v -> %+v\n", o.ClientId, o.Call, o.Return, o.Input, o.Output)
	}
	return b.String()
}

// c09Classify names what is wrong with an illegal history in stable terms (class discriminator).
func c09Classify(N int, ops []porcupine.Operation) string {
	// the same id accepted twice without a final delivery in between (by return order)
	sorted := append([]porcupine.Operation{}, ops...)
	sort.Slice(sorted, func(i, j int) bool { return sorted[i].Return < sorted[j].Return })
	held := map[int16]bool{}
	for _, o := range sorted {
		in, out := o.Input.(idIn), o.Output.(idOut)
		switch {
		case (in.Op == "enqM" || in.Op == "enqX") && !out.Err:
			if in.Op == "enqM" && (out.ID < 1 || int(out.ID) > N) {
				return "managed-id-out-of-range"
			}
			if held[out.ID] {
				return "duplicate-id-accepted:" + in.Op
			}
			if len(held) >= N {
				return "more-than-N-accepted"
			}
			held[out.ID] = true
		case in.Op == "dlv" && in.Final && !out.Err:
			delete(held, in.K)
		}
	}
	return "other"
}

// ---- "wire": the same property observed where the statement observes it — stream ids seen by the
// peer on the wire, errors returned by Send — on a live connection against a raw (refwire) server.

func init() {
	Register(&Scenario{Name: "wire", Property: "C09", Body: c09Wire})
	pd := props["C09"]
	prev := pd.Case
	pd.Case = func(w *Worker, i int) {
		prev(w, i)
		if i%4 == 0 {
			w.Exec(RunSpec{Scenario: "wire", Index: i})
		}
	}
}

func c09Wire(r *Run) {
	const P = "C09"
	r.LeaveCloseFamilyToC16 = true
	T := r.T
	v := r.DrawVersion()
	N := 1 + T.Draw("N", 6)
	K := 1 + T.Draw("senders", 5)
	M := 1 + T.Draw("requests", 4)
	neverAnswer := T.Draw("never", 3) // up to this many requests are answered only at the very end
	// rarely: a large limit and one sender that fires a burst of N sends at a peer that is not reading
	// (queues fill up), twice; every one of the N must be accepted both times
	bigBurst := T.Draw("bigburst", 80) == 79
	if bigBurst && v != primitive.ProtocolVersion2 {
		N = 1100 + T.Draw("bigN", 900)
		K, M, neverAnswer = 1, 0, 0
		r.StepBudget = 6000000
	} else {
		bigBurst = false
	}
	opts := LinkOpts{Capacity: []int{1 << 20, 64, 4096}[T.DrawP("capacity", 3, 0.6)], Latency: ms([]int{0, 1, 20}[T.Draw("latency", 3)]), ChunkReads: T.Bool("chunkReads", 0.5)}
	// timeout mode: a short read timeout, so that held-back answers arrive AFTER their request has failed;
	// the id of such a request must stay out of circulation until the late answer has arrived, and be
	// assignable again afterwards.
	timeoutMode := !bigBurst && T.Bool("timeouts", 0.25)
	readTimeout := time.Hour
	if timeoutMode {
		readTimeout = ms(300 + T.Draw("timeout.ms", 500))
		if opts.Capacity < 4096 {
			opts.Capacity = 4096
		}
		if opts.Latency > ms(1) {
			opts.Latency = ms(1)
		}
		if neverAnswer == 0 {
			neverAnswer = 1
		}
	}
	// mixed mode: some sends carry caller-chosen ids above N or below 0 (never colliding with a managed id)
	mixed := !bigBurst && T.Bool("mixed", 0.25)
	// overflow mode (DSE): some answers are streams of pages longer than MaxPending (4) sent to requests
	// whose sender is not reading yet; such a request fails, but its id stays unanswered on the wire until
	// the peer has sent the last page and must not be handed out before
	overflowMode := !bigBurst && v.IsDse() && T.Bool("pages.overflow", 0.35)
	if overflowMode {
		// few ids (a freed id comes round again soon), several senders that keep sending while pages stream
		N = 1 + T.Draw("overflow.N", 3)
		K = 2 + T.Draw("overflow.senders", 3)
		M = 3 + T.Draw("overflow.requests", 4)
	}
	r.Config["overflowMode"] = fmt.Sprint(overflowMode)
	r.Config["timeoutMode"] = fmt.Sprint(timeoutMode)
	r.Config["mixed"] = fmt.Sprint(mixed)
	r.Config["version"] = v.String()
	r.Config["N"] = fmt.Sprint(N)
	r.Config["senders"] = fmt.Sprint(K)
	r.Config["requests"] = fmt.Sprint(M)
	r.Config["bigBurst"] = fmt.Sprint(bigBurst)
	ctx, cancel := context.WithCancel(context.Background())
	a, b := r.Net.Pair("L", r.Net.NewClientAddr(), mustAddr("10.0.0.2:9042"), opts)
	peer := NewRawPeer(r, b, byte(v))
	peerStalled := false
	// peer-side observation of the wire
	unanswered := map[int16]string{}
	var wireLog []string
	accepted, refused := 0, 0
	timedOut := 0
	unansweredByPeer := 0
	done := false
	var blockedSender string
	r.Go("main", func() {
		cc, err := client.VerifNewClientConnection(a, ctx, nil, primitive.CompressionNone, N, 4, readTimeout, nil)
		if err != nil {
			return
		}
		r.Cleanup(func() { _ = cc.Close(); cancel(); _ = b.Close() })
		hs := make(doneChan)
		var hsErr error
		r.Go("hsPeer", func() { defer close(hs); hsErr = peer.ServerHandshake(); r.Yield("hs.s") })
		err = cc.InitiateHandshake(v, client.ManagedStreamId)
		r.Yield("hs.c")
		<-hs
		r.Yield("hs.joined")
		if err != nil || hsErr != nil {
			r.Violate(P, "handshake", "failed:wire", "handshake with the raw server failed: %v / %v", err, hsErr)
			return
		}
		// raw server: reads requests, checks ids, answers in a drawn order
		var pending []RFrame
		cond := NewCond()
		stopped := false
		readerDone := false
		var mu sync.Mutex
		var pwg sync.WaitGroup
		pwg.Add(2)
		r.Go("peer.read", func() {
			defer pwg.Done()
			defer func() {
				mu.Lock()
				readerDone = true
				mu.Unlock()
				cond.Bump()
			}()
			for {
				for peerStalled {
					r.Sleep(10 * time.Millisecond)
				}
				f, err := peer.ReadFrame()
				r.Yield("peer.read")
				if err != nil {
					return
				}
				q, _ := RParseQuery(f.Body)
				id := f.H.Stream
				wireLog = append(wireLog, fmt.Sprintf("recv %s id=%d", q, id))
				if (id < 1 || int(id) > N) && !strings.HasPrefix(q, "x") {
					r.Violate(P, "wire", "id-out-of-range", "request %s arrived with stream id %d; managed ids must lie in 1..%d", q, id, N)
				}
				if other, dup := unanswered[id]; dup {
					r.Violate(P, "wire", "duplicate-id-on-wire", "request %s arrived with stream id %d while request %s with the same id is still unanswered (N=%d); wire: %v", q, id, other, N, wireLog)
				}
				unanswered[id] = q
				if strings.HasPrefix(q, "final") || strings.HasPrefix(q, "overflow") {
					// the requests of the recycling checkpoint stay unanswered on purpose
					if len(unanswered) > N {
						r.Violate(P, "wire", "more-than-N-unanswered", "%d requests are unanswered on the wire, limit is %d", len(unanswered), N)
					}
					continue
				}
				if len(unanswered) > N {
					r.Violate(P, "wire", "more-than-N-unanswered", "%d requests are unanswered on the wire, limit is %d", len(unanswered), N)
				}
				mu.Lock()
				pending = append(pending, f)
				mu.Unlock()
				cond.Bump()
			}
		})
		held := 0
		heldTotal := 0
		latePending := 0
		// several peer tasks answer on one connection: one envelope batch at a time (a write can block
		// half-way on a small link, and tasks switch there)
		writing := false
		sendExclusive := func(envs [][]byte) error {
			for writing {
				r.Sleep(time.Millisecond)
			}
			writing = true
			defer func() { writing = false }()
			return peer.SendEnvelopes(envs)
		}
		r.Go("peer.answer", func() {
			defer pwg.Done()
			for {
				cond.Wait(func() bool {
					mu.Lock()
					defer mu.Unlock()
					return len(pending) > held || (stopped && len(pending) > 0) || readerDone
				})
				mu.Lock()
				if stopped || readerDone {
					// senders are done sending: answer at once everything that is or was held back and
					// whatever still arrives, until the connection ends
					rest := pending
					pending = nil
					held = 0
					ended := readerDone
					mu.Unlock()
					for _, f := range rest {
						delete(unanswered, f.H.Stream)
						_ = sendExclusive([][]byte{peer.Envelope(true, 0, f.H.Stream, ROpResult, RBodyResultVoid(), false)})
						r.Yield("peer.flush")
					}
					if ended {
						return
					}
					if len(rest) == 0 {
						// nothing to do yet: wait for more requests or the end of the connection
						cond.Wait(func() bool { mu.Lock(); defer mu.Unlock(); return len(pending) > 0 || readerDone })
					}
					continue
				}
				mu.Unlock()
				if d := T.DrawP("peer.hold", 20, 0.5); d > 0 {
					r.Sleep(ms(d))
				}
				mu.Lock()
				if len(pending) <= held {
					mu.Unlock()
					continue
				}
				k := held + T.Draw("peer.pick", len(pending)-held)
				if heldTotal < neverAnswer && T.Bool("peer.holdback", 0.3) {
					// keep this one unanswered for a long while (fake time), answer it from its own task
					f := pending[k]
					pending = append(pending[:k], pending[k+1:]...)
					mu.Unlock()
					heldTotal++
					r.Probes["held_back"]++
					d := ms(200 + T.Draw("peer.holdms", 3000))
					pwg.Add(1)
					latePending++
					r.Go("peer.late", func() {
						defer pwg.Done()
						defer func() { latePending-- }()
						r.Sleep(d)
						delete(unanswered, f.H.Stream)
						wireLog = append(wireLog, fmt.Sprintf("late answer id=%d", f.H.Stream))
						_ = sendExclusive([][]byte{peer.Envelope(true, 0, f.H.Stream, ROpResult, RBodyResultVoid(), false)})
						r.Yield("peer.late.sent")
					})
					continue
				}
				if overflowMode && T.Bool("peer.pages", 0.6) {
					f := pending[k]
					pending = append(pending[:k], pending[k+1:]...)
					mu.Unlock()
					pages := 6 + T.Draw("peer.npages", 6)
					gap := ms(5 + T.Draw("peer.pagegap", 40))
					r.Probes["paged_answers_longer_than_max_pending"]++
					pwg.Add(1)
					latePending++
					r.Go("peer.pages", func() {
						defer pwg.Done()
						defer func() { latePending-- }()
						for pg := 1; pg <= pages; pg++ {
							last := pg == pages
							if last {
								delete(unanswered, f.H.Stream) // the final page is on the wire from now on
								wireLog = append(wireLog, fmt.Sprintf("last page id=%d", f.H.Stream))
							}
							if err := sendExclusive([][]byte{peer.Envelope(true, 0, f.H.Stream, ROpResult, RBodyResultRows(1, [][][]byte{{[]byte("p")}}, int32(pg), last), false)}); err != nil {
								delete(unanswered, f.H.Stream)
								return
							}
							r.Yield("peer.page.sent")
							if !last {
								r.Sleep(gap)
							}
						}
					})
					continue
				}
				f := pending[k]
				pending = append(pending[:k], pending[k+1:]...)
				mu.Unlock()
				// the response is on the wire from now on: the id may be reused by the client
				delete(unanswered, f.H.Stream)
				wireLog = append(wireLog, fmt.Sprintf("answer id=%d", f.H.Stream))
				if err := sendExclusive([][]byte{peer.Envelope(true, 0, f.H.Stream, ROpResult, RBodyResultVoid(), false)}); err != nil {
					return
				}
				r.Yield("peer.answered")
			}
		})
		var wg sync.WaitGroup
		senderState := make([]string, K)
		for i := 0; i < K; i++ {
			i := i
			wg.Add(1)
			r.Go(fmt.Sprintf("sender%d", i), func() {
				defer wg.Done()
				var mine []client.InFlightRequest
				for j := 0; j < M; j++ {
					senderState[i] = "Send"
					if overflowMode || T.Bool("sender.paced", 0.2) {
						// sends spread over time: ids are asked for while earlier answers are still streaming in
						r.Sleep(ms(T.Draw("sender.pace", 120)))
					}
					sid, name := int16(client.ManagedStreamId), fmt.Sprintf("q%d.%d", i, j)
					if mixed && T.Bool("mixed.explicit", 0.4) {
						sid, name = []int16{int16(N + 1), int16(N + 2), int16(N + 3), -2, -3, -128}[T.Draw("k.explicit", 6)], fmt.Sprintf("x%d.%d", i, j)
					}
					req, err := cc.Send(queryFrame(v, sid, name))
					r.Yield("sender.sent")
					senderState[i] = ""
					if err != nil || req == nil {
						refused++
						continue
					}
					accepted++
					mine = append(mine, req)
					if T.Bool("sender.wait", 0.5) && !(overflowMode && T.Bool("sender.lazy", 0.6)) {
						senderState[i] = "Receive"
						f, err := cc.Receive(req)
						r.Yield("sender.recv")
						if f == nil || err != nil {
							if timeoutMode || overflowMode {
								timedOut++
							} else {
								unansweredByPeer++
							}
						}
						senderState[i] = ""
						mine = mine[:len(mine)-1]
					}
				}
				senderState[i] = "done-sending"
				// wait for the rest only after the peer's final flush
				for _, req := range mine {
					f, err := cc.Receive(req)
					r.Yield("sender.recv.rest")
					if f == nil || err != nil {
						if timeoutMode || overflowMode {
							timedOut++
						} else {
							unansweredByPeer++
						}
					}
				}
				senderState[i] = "done"
			})
		}
		// when every sender has finished sending, let the peer flush what it held back
		r.Go("stopper", func() {
			for {
				all := true
				for _, s := range senderState {
					if s != "done-sending" && s != "done" {
						all = false
					}
				}
				if all {
					break
				}
				r.Sleep(50 * time.Millisecond)
			}
			mu.Lock()
			stopped = true
			mu.Unlock()
			cond.Bump()
		})
		wg.Wait()
		r.Yield("senders.joined")
		if unansweredByPeer > 0 {
			// harness problem (a request was not answered before its read timeout): judge nothing further
			r.Probes["wire_harness_unanswered"]++
			done = true
			return
		}
		if bigBurst {
			for round := 0; round < 2; round++ {
				peerStalled = true
				var burst []client.InFlightRequest
				for k := 0; k < N; k++ {
					req, err := cc.Send(queryFrame(v, client.ManagedStreamId, fmt.Sprintf("b%d.%d", round, k)))
					if k%64 == 0 {
						r.Yield("burst.sent")
					}
					if err != nil || req == nil {
						r.Violate(P, "refusal", "wire-refused-below-limit", "burst %d: send %d of %d was refused although only %d requests are unanswered and the limit is %d: %v", round+1, k+1, N, k, N, err)
						break
					}
					burst = append(burst, req)
				}
				r.Probes["big_bursts"]++
				peerStalled = false
				for _, req := range burst {
					f, err := cc.Receive(req)
					if f == nil || err != nil {
						unansweredByPeer++
						break
					}
				}
				r.Yield("burst.answered")
			}
			if unansweredByPeer > 0 {
				r.Probes["wire_harness_unanswered"]++
				done = true
				return
			}
			accepted += 2 * N
		}
		if timeoutMode || overflowMode {
			// requests that timed out are answered late, from tasks of their own: wait until the peer has
			// answered everything and the answers have crossed the link
			for k := 0; k < 400 && (latePending > 0 || len(unanswered) > 0); k++ {
				r.Sleep(50 * time.Millisecond)
			}
			r.Sleep(200 * time.Millisecond)
			r.Probes["wire_requests_timed_out"] += timedOut
			if latePending > 0 || len(unanswered) > 0 {
				r.Probes["wire_harness_unanswered"]++
				done = true
				return
			}
		}
		// recycling: everything is answered now, so N new requests must be accepted, ids 1..N distinct
		seen := map[int16]bool{}
		for k := 0; k < N; k++ {
			req, err := cc.Send(queryFrame(v, client.ManagedStreamId, fmt.Sprintf("final%d", k)))
			r.Yield("final.sent")
			if err != nil || req == nil {
				r.Violate(P, "recycling", "wire-pool-not-recycled", "after all %d accepted requests were answered, send %d of %d new ones was refused: %v", accepted, k+1, N, err)
				break
			}
			if seen[req.StreamId()] || req.StreamId() < 1 || int(req.StreamId()) > N {
				r.Violate(P, "recycling", "wire-duplicate-after-recycle", "new request %d got stream id %d (already handed out or out of 1..%d)", k, req.StreamId(), N)
			}
			seen[req.StreamId()] = true
		}
		if req, err := cc.Send(queryFrame(v, client.ManagedStreamId, "overflow")); err == nil && req != nil {
			r.Violate(P, "refusal", "wire-not-refused-when-full", "with %d unanswered requests (limit %d) a further send was accepted with stream id %d", N, N, req.StreamId())
		}
		r.Yield("final.done")
		_ = cc.Close()
		r.Yield("closed")
		pwg.Wait()
		r.Yield("peer.joined")
		done = true
		for i, s := range senderState {
			if s != "done" {
				blockedSender = fmt.Sprintf("sender%d in %s", i, s)
			}
		}
	})
	if !r.Drive() {
		r.Violate(P, "liveness", "step-budget", "run did not quiesce")
		return
	}
	if !done {
		r.Violate(P, "no-block", "wire-blocked", "live session did not finish: a send or receive is blocked at quiescence (N=%d, accepted %d, refused %d) %s", N, accepted, refused, blockedSender)
	}
	r.Nontrivial = accepted >= 2
	r.Probes["wire_sends_accepted"] += accepted
	r.Probes["wire_sends_refused"] += refused
	if r.Spec.Trace {
		r.Sample = map[string]interface{}{"wire": wireLog}
	}
}
