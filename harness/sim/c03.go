package sim

import (
	"bufio"
	"bytes"
	"fmt"
	"io"

	"github.com/datastax/go-cassandra-native-protocol/compression/lz4"
	"github.com/datastax/go-cassandra-native-protocol/compression/snappy"
	"github.com/datastax/go-cassandra-native-protocol/frame"
	"github.com/datastax/go-cassandra-native-protocol/message"
	"github.com/datastax/go-cassandra-native-protocol/primitive"
)

// C03 — declared lengths equal emitted bytes; back-to-back frames decode in sequence
// (DESIGN.md §5 C03). Scenario "stream": a writer task encodes generated frames back-to-back onto a
// simulated connection (short reads, back-pressure, latency), a reader task decodes them until EOF.

func init() {
	Register(&Scenario{Name: "stream", Property: "C03", Body: c03Stream})
	props["C03"] = &propDef{Case: func(w *Worker, i int) { w.Exec(RunSpec{Scenario: "stream", Index: i}) }}
}

func frameCodecFor(comp primitive.Compression) frame.RawCodec {
	switch comp {
	case primitive.CompressionLz4:
		return frame.NewRawCodecWithCompression(lz4.Compressor{})
	case primitive.CompressionSnappy:
		return frame.NewRawCodecWithCompression(snappy.Compressor{})
	}
	return frame.NewRawCodec()
}

type c03Sent struct {
	f        *frame.Frame // deep copy taken before encoding
	kind     string
	start    int   // offset of the header in the stream
	end      int   // offset just past the body
	declared int32 // Header.BodyLength the encoder left in the frame
	encErr   error
}

func c03Stream(r *Run) {
	const P = "C03"
	T := r.T
	v := r.DrawVersion()
	comp := r.DrawCompression(v)
	n := 1 + T.Draw("nframes", 40)
	readerMode := T.Draw("reader", 4) // 0 DecodeFrame, 1 DecodeRawFrame (by declared length), 2 DecodeHeader+DecodeBody, 3 DecodeHeader + DiscardBody for every other frame
	// cut: after the last frame the writer delivers only a prefix of one more frame and closes the stream;
	// the decoder has to end with an error there, not with a frame (nor with a raw frame whose body is
	// shorter than its header declares)
	cut := T.Bool("cut", 0.2)
	big := T.Bool("big", 0.1)
	// what the decoder reads from: 0 the connection, 1 a *bytes.Buffer holding the whole stream, 2 a
	// *bytes.Reader holding it, 3 a bufio.Reader over the connection, 4 one *bytes.Buffer that is written
	// and read in turns (encode a frame, decode it, encode the next)
	source := T.DrawP("source", 5, 0.45)
	rejects := T.Bool("rejects", 0.35) // unencodable frames are attempted in between (to a scratch destination)
	opts := LinkOpts{
		Capacity:   []int{1 << 20, 64, 4096, 1, 65536}[T.DrawP("capacity", 5, 0.5)],
		Latency:    ms([]int{0, 1, 20}[T.Draw("latency", 3)]),
		ChunkReads: T.Bool("chunkReads", 0.6),
	}
	r.Config["version"] = v.String()
	r.Config["compression"] = string(comp)
	r.Config["frames"] = fmt.Sprint(n)
	r.Config["reader"] = []string{"DecodeFrame", "DecodeRawFrame+Convert", "DecodeHeader+DecodeBody", "DecodeHeader+DecodeBody/DiscardBody alternating"}[readerMode]
	r.Config["source"] = []string{"connection", "*bytes.Buffer (whole stream)", "*bytes.Reader (whole stream)", "bufio.Reader over the connection", "*bytes.Buffer written and read in turns"}[source]
	r.Config["rejects"] = fmt.Sprint(rejects)
	maxBytes := 2000
	if big && opts.Capacity >= 4096 {
		maxBytes = 300000 // with a tiny capacity every byte costs several scheduler steps: keep those runs small
	}
	frames := make([]*frame.Frame, n)
	for i := range frames {
		frames[i] = GenFrame(T, GenOpts{Version: v, Requests: true, Responses: true, MaxBytes: maxBytes, BigChance: 0.15,
			Compressible: T.Bool("compressible", 0.5), HeaderFlags: true, AllowTracingOnRequests: true}, DrawStreamId(T, v))
		if comp != primitive.CompressionNone && T.Bool("compressflag", 0.6) {
			markCompressed(T, frames[i])
		}
	}
	a, b := r.Net.Pair("L", r.Net.NewClientAddr(), mustAddr("10.0.0.2:9042"), opts)
	wcodec := frameCodecFor(comp)
	rcodec := frameCodecFor(comp)
	sent := make([]*c03Sent, 0, n)
	var got []*frame.Frame
	shortRaw := ""
	skipNext := false
	var consumedAt []int64 // reader position after each decoded frame
	var readErr error
	writerDone, readerDone := false, false
	// decodeOne reads one frame from src in the drawn reader mode
	decodeOne := func(src io.Reader) (f *frame.Frame, err error) {
		switch readerMode {
		case 0:
			f, err = rcodec.DecodeFrame(src)
		case 1:
			var raw *frame.RawFrame
			if raw, err = rcodec.DecodeRawFrame(src); err == nil {
				if len(raw.Body) != int(raw.Header.BodyLength) {
					shortRaw = fmt.Sprintf("DecodeRawFrame returned a raw frame whose header declares %d body bytes with a body of %d bytes", raw.Header.BodyLength, len(raw.Body))
				}
				f, err = rcodec.ConvertFromRawFrame(raw)
			}
		case 3:
			var h *frame.Header
			if h, err = rcodec.DecodeHeader(src); err == nil {
				skipNext = !skipNext
				if skipNext {
					// a reader that is not interested in this frame skips its body by the declared length
					if err = rcodec.DiscardBody(h, src); err == nil {
						f = &frame.Frame{Header: h} // no body: only the position is judged for this one
					}
				} else {
					var body *frame.Body
					if body, err = rcodec.DecodeBody(h, src); err == nil {
						f = &frame.Frame{Header: h, Body: body}
					}
				}
			}
		default:
			var h *frame.Header
			if h, err = rcodec.DecodeHeader(src); err == nil {
				var body *frame.Body
				if body, err = rcodec.DecodeBody(h, src); err == nil {
					f = &frame.Frame{Header: h, Body: body}
				}
			}
		}
		return
	}
	attemptReject := func() {
		if !rejects || !T.Bool("reject", 0.3) {
			return
		}
		bad := c03Unencodable(T, v, comp)
		var scratch bytes.Buffer
		if err := wcodec.EncodeFrame(bad, &scratch); err != nil {
			r.Probes["unencodable_frame_rejected"]++
		} else {
			r.Probes["unencodable_frame_accepted"]++
		}
		r.Yield("writer.rejected")
	}
	var turns bytes.Buffer
	var turnsWritten int
	var cutBytes []byte
	if cut && source != 4 {
		cf := GenFrame(T, GenOpts{Version: v, Requests: true, Responses: true, MaxBytes: 400, HeaderFlags: true}, DrawStreamId(T, v))
		var cb bytes.Buffer
		if err := frameCodecFor(comp).EncodeFrame(cf, &cb); err == nil && cb.Len() > 1 {
			cutBytes = cb.Bytes()[:1+T.Draw("cut.at", cb.Len()-1)]
		}
	}
	r.Config["cut"] = fmt.Sprint(len(cutBytes) > 0)
	r.Go("writer", func() {
		defer func() { writerDone = true }()
		for _, f := range frames {
			attemptReject()
			var dest io.Writer = a
			pos := func() int { return int(a.WrittenBytes()) }
			if source == 4 {
				dest = &turns
				pos = func() int { return turnsWritten + turns.Len() }
			}
			s := &c03Sent{f: f.DeepCopy(), kind: KindOf(f.Body.Message), start: pos()}
			// encode straight onto the connection, as the client and server connections do
			s.encErr = wcodec.EncodeFrame(f, dest)
			r.Yield("writer.encoded")
			s.end = pos()
			s.declared = f.Header.BodyLength
			sent = append(sent, s)
			if s.encErr != nil {
				break
			}
			if source == 4 {
				// the same buffer is now read: exactly this frame must come out and nothing must remain
				_, _ = a.Write(turns.Bytes()) // the tap keeps the stream for the framing oracles
				turnsWritten += turns.Len()
				g, err := decodeOne(&turns)
				if err != nil {
					readErr = err
					break
				}
				got = append(got, g)
				consumedAt = append(consumedAt, int64(turnsWritten-turns.Len()))
				if turns.Len() != 0 {
					turns.Reset() // reported below through consumedAt; keep the following frames aligned
				}
			}
		}
		if source == 4 && readErr == nil {
			readErr = io.EOF
		}
		if len(cutBytes) > 0 && (len(sent) == 0 || sent[len(sent)-1].encErr == nil) {
			_, _ = a.Write(cutBytes)
			r.Faults["stream_cut_inside_a_frame"]++
		}
		_ = a.Close()
	})
	r.Go("reader", func() {
		defer func() { readerDone = true }()
		var src io.Reader = b
		consumed := func() int64 { return b.BytesRead() }
		switch source {
		case 1, 2, 4:
			all, _ := io.ReadAll(b)
			if source == 4 {
				return // decoded in turns by the writer
			}
			if source == 1 {
				buf := bytes.NewBuffer(all)
				src, consumed = buf, func() int64 { return int64(len(all) - buf.Len()) }
			} else {
				rd := bytes.NewReader(all)
				src, consumed = rd, func() int64 { return int64(len(all) - rd.Len()) }
			}
		case 3:
			br := bufio.NewReaderSize(b, 16+T.Draw("bufio", 5000))
			src, consumed = br, func() int64 { return b.BytesRead() - int64(br.Buffered()) }
		}
		for {
			f, err := decodeOne(src)
			r.Yield("reader.decoded")
			if err != nil {
				readErr = err
				return
			}
			got = append(got, f)
			consumedAt = append(consumedAt, consumed())
		}
	})
	if !r.Drive() {
		r.Violate(P, "liveness", "step-budget", "run did not quiesce")
		return
	}
	if !writerDone || !readerDone {
		// (5) a reader waiting for declared-but-never-written bytes, or a stuck writer
		r.Violate(P, "liveness", "stuck", "writer done=%v reader done=%v at quiescence: somebody waits for bytes that never come (version %v, compression %v, reader %s)", writerDone, readerDone, v, comp, r.Config["reader"])
		return
	}
	stream := a.Tap().Sent
	if n := len(cutBytes); n > 0 && len(stream) >= n && bytes.Equal(stream[len(stream)-n:], cutBytes) {
		stream = stream[:len(stream)-n] // the framing oracles below look at the complete frames
		if readErr == nil || readErr == io.EOF && len(cutBytes) > 0 && len(got) > len(sent) {
			r.Violate(P, "sequence", "truncated-frame-decoded", "the stream ended %d bytes into a frame and the reader (%s) returned a frame for it", len(cutBytes), r.Config["reader"])
		}
	}
	if shortRaw != "" {
		r.Violate(P, "consumption", "raw-body-shorter-than-declared", "%s (stream cut: %v)", shortRaw, len(cutBytes) > 0)
	}
	hl := v.FrameHeaderLengthInBytes()
	okSent := sent
	for i, s := range sent {
		if s.encErr != nil {
			r.Violate(P, "encode", "encode-error:"+s.kind, "generated %s frame (version %v) could not be encoded: %v", s.kind, v, s.encErr)
			okSent = sent[:i]
			break
		}
		// (2) bytes on the wire for this frame = header + declared body length, and the header on the
		// wire declares the same length as the frame the encoder updated
		wire := s.end - s.start
		if wire != hl+int(s.declared) {
			r.Violate(P, "declared-length", "frame-length-mismatch:"+s.kind, "%s (version %v, compression flag %v): encoder left BodyLength=%d in the frame but wrote %d body bytes (%d bytes in total, header %d)", s.kind, v, s.f.Header.Flags.Contains(primitive.HeaderFlagCompressed), s.declared, wire-hl, wire, hl)
		}
		if s.end <= len(stream) {
			if h, err := RParseHeader(stream[s.start:]); err != nil || h.Length != s.declared {
				r.Violate(P, "declared-length", "header-length-mismatch:"+s.kind, "%s: header on the wire declares %d body bytes, frame says %d (err=%v)", s.kind, h.Length, s.declared, err)
			}
		}
	}
	// (3) an independent reader that frames strictly by declared length finds exactly these frames
	rf, rest, err := RSplitFrames(stream)
	if err != nil || len(rest) != 0 || len(rf) != len(okSent) {
		r.Violate(P, "declared-length", "stream-not-framed-by-declared-lengths", "splitting the %d bytes on the wire by declared lengths gives %d frames + %d trailing bytes (err=%v); the encoder wrote %d frames", len(stream), len(rf), len(rest), err, len(okSent))
	} else {
		for i, f := range rf {
			if f.Start != okSent[i].start || f.End != okSent[i].end {
				r.Violate(P, "declared-length", "frame-boundary-mismatch", "frame %d (%s): by declared length it spans [%d,%d), the encoder wrote [%d,%d)", i, okSent[i].kind, f.Start, f.End, okSent[i].start, okSent[i].end)
				break
			}
		}
	}
	// (1) decoded sequence = sent sequence, (4) decoder consumed exactly up to each boundary
	if readErr != io.EOF && !(readErr != nil && len(got) == len(okSent) && bytes.Contains([]byte(readErr.Error()), []byte("EOF"))) {
		r.Violate(P, "sequence", "decode-error", "reader (%s) failed after %d of %d frames: %v (next frame: %s)", r.Config["reader"], len(got), len(okSent), readErr, kindAt(okSent, len(got)))
	}
	if len(got) != len(okSent) {
		r.Violate(P, "sequence", "count-mismatch", "reader decoded %d frames, writer wrote %d", len(got), len(okSent))
	}
	for i := 0; i < len(got) && i < len(okSent); i++ {
		if got[i].Body == nil {
			// skipped with DiscardBody: header and position only
			if got[i].Header.StreamId != okSent[i].f.Header.StreamId || got[i].Header.OpCode != okSent[i].f.Header.OpCode {
				r.Violate(P, "sequence", "frame-differs:"+okSent[i].kind, "frame %d (%s): header decoded before DiscardBody differs from what was written", i, okSent[i].kind)
				break
			}
		} else if ok, diff := FramesEqual(okSent[i].f, got[i], false); !ok {
			r.Violate(P, "sequence", "frame-differs:"+okSent[i].kind, "frame %d (%s, version %v, compression %v) decoded from the stream differs from what was written: %s", i, okSent[i].kind, v, comp, diff)
			break
		}
		if consumedAt[i] != int64(okSent[i].end) {
			r.Violate(P, "consumption", "consumed-wrong-length:"+okSent[i].kind, "after decoding frame %d (%s) with %s the reader had consumed %d bytes; the frame ends at %d", i, okSent[i].kind, r.Config["reader"], consumedAt[i], okSent[i].end)
			break
		}
		if got[i].Header.BodyLength != okSent[i].declared {
			r.Violate(P, "declared-length", "decoded-bodylength", "frame %d: decoded Header.BodyLength=%d, declared %d", i, got[i].Header.BodyLength, okSent[i].declared)
		}
	}
	// the length each message reports for itself equals what its encoder writes (as exercised)
	for _, s := range okSent {
		c03MessageLength(r, s.f, v)
		r.Probes["kind:"+s.kind]++
	}
	r.Nontrivial = len(got) >= 2
	if r.Spec.Trace {
		var ks []string
		for _, s := range sent {
			ks = append(ks, fmt.Sprintf("%s[%d,%d)", s.kind, s.start, s.end))
		}
		r.Sample = map[string]interface{}{"frames": ks}
	}
}

func kindAt(s []*c03Sent, i int) string {
	if i < len(s) {
		return s[i].kind
	}
	return "-"
}

var c03MsgCodecs = func() map[primitive.OpCode]message.Codec {
	m := map[primitive.OpCode]message.Codec{}
	for _, c := range message.DefaultMessageCodecs {
		m[c.GetOpCode()] = c
	}
	return m
}()

func c03MessageLength(r *Run, f *frame.Frame, v primitive.ProtocolVersion) {
	c := c03MsgCodecs[f.Body.Message.GetOpCode()]
	if c == nil {
		return
	}
	l, err := c.EncodedLength(f.Body.Message, v)
	if err != nil {
		return
	}
	var buf bytes.Buffer
	if err := c.Encode(f.Body.Message, &buf, v); err != nil {
		return
	}
	if l != buf.Len() {
		r.Violate("C03", "message-length", "message-length-mismatch:"+KindOf(f.Body.Message), "%s (version %v): EncodedLength reports %d, Encode writes %d bytes", KindOf(f.Body.Message), v, l, buf.Len())
	}
}

// c03Unencodable builds a frame that the encoder has to refuse, some of them only after part of the body
// has been produced. What the encoder answers is not judged; the frames encoded AFTER it are.
func c03Unencodable(T *Tape, v primitive.ProtocolVersion, comp primitive.Compression) *frame.Frame {
	var m message.Message
	stream := int16(T.Draw("rej.stream", 100))
	filler := func(n int) *primitive.Value { return primitive.NewValue(bytes.Repeat([]byte{0x5a}, n)) }
	switch T.Draw("rej.kind", 7) {
	case 0:
		m = &message.SetKeyspaceResult{Keyspace: ""}
	case 1:
		m = &message.SchemaChangeResult{ChangeType: primitive.SchemaChangeTypeCreated, Target: primitive.SchemaChangeTargetTable, Keyspace: "ks", Object: ""}
	case 2:
		m = &message.Execute{QueryId: nil, Options: &message.QueryOptions{}}
	case 3:
		m = &message.Prepare{Query: ""}
	case 4:
		m = &message.Query{Query: "SELECT * FROM t WHERE a = ? AND b = ?", Options: &message.QueryOptions{PositionalValues: []*primitive.Value{filler(1 + T.Draw("rej.fill", 300)), nil}}}
	case 5:
		m = &message.Batch{Children: []*message.BatchChild{{Query: "INSERT INTO t (a) VALUES (?)", Values: []*primitive.Value{filler(1 + T.Draw("rej.fill", 300))}}, {Query: "INSERT INTO t (a) VALUES (?)", Values: []*primitive.Value{nil}}}}
	default:
		m = &message.Query{Query: "SELECT 1", Options: &message.QueryOptions{}}
		if v == primitive.ProtocolVersion2 {
			stream = 300 // one signed byte in v2
		} else {
			m = &message.Query{Query: "SELECT 1", Options: &message.QueryOptions{PositionalValues: []*primitive.Value{filler(40), nil}}}
		}
	}
	f := frame.NewFrame(v, stream, m)
	if comp != primitive.CompressionNone && T.Bool("rej.compress", 0.4) {
		f.Header.Flags = f.Header.Flags.Add(primitive.HeaderFlagCompressed)
	}
	return f
}
