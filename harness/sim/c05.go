package sim

import (
	"bufio"
	"bytes"
	"fmt"
	"io"

	"github.com/datastax/go-cassandra-native-protocol/frame"
	"github.com/datastax/go-cassandra-native-protocol/message"
	"github.com/datastax/go-cassandra-native-protocol/primitive"
)

// C05 — header-only and raw-body operations agree with the full codec (DESIGN.md §5 C05).
// Scenario "proxy": writer -> link A -> proxy task -> link B -> reader. The proxy forwards every
// frame with one of the partial operations a proxy uses (drawn per frame), reading either straight
// from the non-seekable link or from a seekable buffer; the oracle checks exact consumption after
// every operation, equality of the two decoding routes, and end-to-end equality at the reader.
// Scenario "reencode": successfully decoded (possibly mutated) wire inputs are re-encoded and must
// decode again to an equal frame.

func init() {
	Register(&Scenario{Name: "proxy", Property: "C05", Body: c05Proxy})
	Register(&Scenario{Name: "reencode", Property: "C05", Body: c05Reencode})
	props["C05"] = &propDef{Case: func(w *Worker, i int) {
		w.Exec(RunSpec{Scenario: "proxy", Index: i})
		w.Exec(RunSpec{Scenario: "reencode", Index: i})
	}}
}

var c05Modes = []string{"DecodeRawFrame>EncodeRawFrame", "DecodeHeader+DecodeRawBody>EncodeHeader+write", "DecodeRawFrame>ConvertFrom>ConvertTo>EncodeRawFrame",
	"DecodeHeader+DecodeBody>EncodeBody+EncodeHeader", "DecodeFrame>EncodeFrame", "DecodeHeader+DiscardBody"}

// posReader counts what has been consumed from a non-seekable source.
type posReader struct {
	src io.Reader
	n   int64
}

func (p *posReader) Read(b []byte) (int, error) {
	n, err := p.src.Read(b)
	p.n += int64(n)
	return n, err
}

func c05Proxy(r *Run) {
	const P = "C05"
	T := r.T
	v := r.DrawVersion()
	comp := r.DrawCompression(v)
	n := 1 + T.Draw("nframes", 24)
	optsA := LinkOpts{Capacity: []int{1 << 20, 64, 4096, 3}[T.DrawP("capA", 4, 0.5)], Latency: ms([]int{0, 1, 20}[T.Draw("latA", 3)]), ChunkReads: T.Bool("chunkA", 0.6)}
	optsB := LinkOpts{Capacity: []int{1 << 20, 64, 4096, 3}[T.DrawP("capB", 4, 0.5)], Latency: ms([]int{0, 1, 20}[T.Draw("latB", 3)]), ChunkReads: T.Bool("chunkB", 0.6)}
	r.Config["version"] = v.String()
	r.Config["compression"] = string(comp)
	frames := make([]*frame.Frame, n)
	modes := make([]int, n)
	seekable := make([]bool, n)
	// bodies beyond 64 KiB (a length the raw paths may treat differently), only over links that are not tiny
	maxBytes, bigChance := c05MaxBytes(optsA, optsB), 0.1
	bigRun := T.Bool("bigframes", 0.2) && optsA.Capacity >= 4096 && optsB.Capacity >= 4096
	if bigRun {
		maxBytes, bigChance = 250000, 0.7
		if n > 8 {
			n = 8
			frames, modes, seekable = frames[:n], modes[:n], seekable[:n]
		}
	}
	r.Config["max_field_bytes"] = fmt.Sprint(maxBytes)
	r.Config["frames"] = fmt.Sprint(n)
	for i := range frames {
		frames[i] = GenFrame(T, GenOpts{Version: v, Requests: true, Responses: true, MaxBytes: maxBytes, BigChance: bigChance,
			Compressible: T.Bool("compressible", 0.5), HeaderFlags: true, AllowTracingOnRequests: true}, DrawStreamId(T, v))
		if comp != primitive.CompressionNone && T.Bool("compressflag", 0.6) {
			markCompressed(T, frames[i])
		}
		modes[i] = T.Draw("mode", len(c05Modes))
		seekable[i] = T.Bool("seekable", 0.4)
	}
	// a proxy that edits what it forwards: in mode DecodeFrame>EncodeFrame the decoded frame gets a warning
	// (responses, v4+), a custom payload (requests, v4+) or a longer query text before it is encoded again
	modify := make([]bool, n)
	for i := range modify {
		modify[i] = modes[i] == 4 && T.Bool("modify", 0.4)
	}
	// cut: the writer delivers only a prefix of one more frame and closes; the proxy must fail on it and
	// must not forward anything for it
	cut := T.Bool("cut", 0.2)
	cutMode := T.Draw("cut.mode", len(c05Modes))
	cutSrc := T.Draw("cut.src", 4) // 0 link, 1 bytes.Reader, 2 bytes.Buffer, 3 bufio.Reader
	var cutBytes []byte
	if cut {
		cf := GenFrame(T, GenOpts{Version: v, Requests: true, Responses: true, MaxBytes: 400, HeaderFlags: true}, DrawStreamId(T, v))
		var cb bytes.Buffer
		if err := frameCodecFor(comp).EncodeFrame(cf, &cb); err == nil && cb.Len() > 1 {
			cutBytes = cb.Bytes()[:1+T.Draw("cut.at", cb.Len()-1)]
		} else {
			cut = false
		}
	}
	r.Config["cut"] = fmt.Sprint(cut)
	a1, a2 := r.Net.Pair("A", r.Net.NewClientAddr(), mustAddr("10.0.0.3:9042"), optsA)
	b1, b2 := r.Net.Pair("B", r.Net.NewClientAddr(), mustAddr("10.0.0.2:9042"), optsB)
	wcodec, pcodec, rcodec := frameCodecFor(comp), frameCodecFor(comp), frameCodecFor(comp)
	if T.Bool("sharedcodec", 0.3) {
		// one codec instance for all three tasks, as a proxy that keeps a single codec does; a write that
		// blocks half-way on a small link is where another task gets to use the codec meanwhile
		pcodec, rcodec = wcodec, wcodec
		r.Config["codec"] = "one instance shared by writer, proxy and reader"
	}
	type sentRec struct {
		f          *frame.Frame
		kind       string
		start, end int
	}
	var sent []sentRec
	var got []*frame.Frame
	var readErr, proxyErr error
	proxyAt := -1
	wDone, pDone, rDone := false, false, false
	writerFailed := false
	r.Go("writer", func() {
		defer func() { wDone = true }()
		for _, f := range frames {
			s := sentRec{f: f.DeepCopy(), kind: KindOf(f.Body.Message), start: int(a1.WrittenBytes())}
			err := wcodec.EncodeFrame(f, a1)
			r.Yield("writer.encoded")
			if err != nil {
				r.Violate(P, "encode", "encode-error:"+s.kind, "generated %s frame could not be encoded: %v", s.kind, err)
				writerFailed = true
				break
			}
			s.end = int(a1.WrittenBytes())
			sent = append(sent, s)
		}
		if cut && !writerFailed {
			_, _ = a1.Write(cutBytes)
			r.Faults["stream_cut_inside_a_frame"]++
		}
		_ = a1.Close()
	})
	type consumed struct {
		kind   string // "link", "bytes.Reader", "bytes.Buffer"
		pos    int64  // bytes consumed from the buffered source after the operation (buffered kinds)
		want   int64  // where the frame ends inside the buffered source
		srcPos int64  // bytes consumed from the link after the operation
		mode   int
	}
	var cons []consumed
	modified := map[int]*frame.Frame{}
	var cutErr error
	cutTried := false
	srcKinds := make([]int, n)
	batch := make([]int, n)
	for i := range srcKinds {
		srcKinds[i] = T.DrawP("srckind", 4, 0.4) // 0 link, 1 bytes.Reader (seekable), 2 bytes.Buffer, 3 a reader that returns its last bytes together with io.EOF
		if bigRun && T.Bool("big.fromlink", 0.6) {
			srcKinds[i] = 0 // big bodies are interesting where reads are short: on the link
		}
		batch[i] = 1 + T.DrawP("batch", 3, 0.5)  // frames buffered together when the source is a buffer
	}
	r.Go("proxy", func() {
		defer func() { pDone = true; _ = b1.Close() }()
		src := &posReader{src: a2}
		hl := v.FrameHeaderLengthInBytes()
		// readOne copies exactly one frame (header, then the declared body length) from the link
		readOne := func() ([]byte, error) {
			hdr := make([]byte, hl)
			if _, err := io.ReadFull(src, hdr); err != nil {
				return nil, err
			}
			rh, err := RParseHeader(hdr)
			if err != nil || rh.Length < 0 {
				return nil, fmt.Errorf("unparsable header on the link: %v", err)
			}
			buf := make([]byte, hl+int(rh.Length))
			copy(buf, hdr)
			if _, err := io.ReadFull(src, buf[hl:]); err != nil {
				return nil, err
			}
			return buf, nil
		}
		i := 0
		for i < n {
			kind := srcKinds[i]
			if kind == 0 {
				before := src.n
				err := c05ForwardM(pcodec, modes[i], src, b1, modify[i], &modified, i)
				r.Yield("proxy.forwarded")
				if src.n-before > 65536+9 {
					r.Probes["body_over_64KiB_from_link/"+c05Modes[modes[i]]]++
				}
				if err != nil {
					if !writerFailed {
						proxyErr, proxyAt = err, i
					}
					return
				}
				cons = append(cons, consumed{kind: "link", srcPos: src.n, mode: modes[i]})
				r.Probes["mode:"+c05Modes[modes[i]]]++
				i++
				continue
			}
			// buffered source holding k whole frames back to back
			k := batch[i]
			if i+k > n {
				k = n - i
			}
			var all []byte
			var ends []int64
			for j := 0; j < k; j++ {
				one, err := readOne()
				if err != nil {
					if !writerFailed {
						proxyErr, proxyAt = err, i+j
					}
					return
				}
				all = append(all, one...)
				ends = append(ends, int64(len(all)))
			}
			var in io.Reader
			var posOf func() int64
			kindName := "bytes.Reader"
			if kind == 1 {
				br := bytes.NewReader(all)
				in = br
				posOf = func() int64 { p, _ := br.Seek(0, io.SeekCurrent); return p }
			} else if kind == 3 {
				de := &dataEOFReader{data: all, chunk: 1 + T.Draw("dataeof.chunk", 700)}
				in = de
				posOf = func() int64 { return int64(de.pos) }
				kindName = "reader returning data with io.EOF"
			} else {
				bb := bytes.NewBuffer(all)
				total := int64(len(all))
				in = bb
				posOf = func() int64 { return total - int64(bb.Len()) }
				kindName = "bytes.Buffer"
			}
			if k > 1 && modes[i] == 2 {
				// a proxy that queues: decode and convert the whole batch first, encode afterwards
				var raws []*frame.RawFrame
				for j := 0; j < k; j++ {
					raw, err := pcodec.DecodeRawFrame(in)
					if err == nil {
						var f *frame.Frame
						if f, err = pcodec.ConvertFromRawFrame(raw); err == nil {
							raw, err = pcodec.ConvertToRawFrame(f)
						}
					}
					r.Yield("proxy.batch.decoded")
					if err != nil {
						proxyErr, proxyAt = err, i+j
						return
					}
					raws = append(raws, raw)
					cons = append(cons, consumed{kind: kindName, pos: posOf(), want: ends[j], srcPos: src.n, mode: 2})
				}
				for j, raw := range raws {
					if err := pcodec.EncodeRawFrame(raw, b1); err != nil {
						proxyErr, proxyAt = err, i+j
						return
					}
					r.Yield("proxy.batch.encoded")
					modes[i+j] = 2
				}
				r.Probes["mode:batch convert then encode"] += k
			} else {
				for j := 0; j < k; j++ {
					err := c05ForwardM(pcodec, modes[i+j], in, b1, modify[i+j], &modified, i+j)
					r.Yield("proxy.forwarded")
					if err != nil {
						proxyErr, proxyAt = err, i+j
						return
					}
					cons = append(cons, consumed{kind: kindName, pos: posOf(), want: ends[j], srcPos: src.n, mode: modes[i+j]})
					r.Probes["mode:"+c05Modes[modes[i+j]]]++
				}
			}
			r.Probes["source:"+kindName] += k
			if k > 1 {
				r.Probes["multi_frame_buffers"]++
			}
			i += k
		}
		if cut {
			// one more frame, of which only a prefix ever arrives: straight from the link, or from a buffer
			// that holds whatever arrived before the stream ended
			var in io.Reader = src
			switch cutSrc {
			case 1, 2, 3:
				rest, _ := io.ReadAll(src)
				switch cutSrc {
				case 1:
					in = bytes.NewReader(rest)
				case 2:
					in = bytes.NewBuffer(rest)
				default:
					in = bufio.NewReader(bytes.NewReader(rest))
				}
			}
			cutErr = c05Forward(pcodec, cutMode, in, b1)
			cutTried = true
			r.Yield("proxy.cut")
		}
	})
	r.Go("reader", func() {
		defer func() { rDone = true }()
		for {
			f, err := rcodec.DecodeFrame(b2)
			r.Yield("reader.decoded")
			if err != nil {
				readErr = err
				return
			}
			got = append(got, f)
		}
	})
	if !r.Drive() {
		r.Violate(P, "liveness", "step-budget", "run did not quiesce")
		return
	}
	if !wDone || !pDone || !rDone {
		r.Violate(P, "liveness", "stuck", "writer=%v proxy=%v reader=%v at quiescence: an operation waits for bytes beyond the declared length", wDone, pDone, rDone)
		return
	}
	if proxyErr != nil {
		r.Violate(P, "proxy", "forward-error:"+c05Modes[modes[proxyAt]], "%s failed on frame %d (%s, version %v, compression %v): %v", c05Modes[modes[proxyAt]], proxyAt, sent[proxyAt].kind, v, comp, proxyErr)
		return
	}
	// exact consumption after every proxy operation
	for i, c := range cons {
		if i >= len(sent) {
			break
		}
		sr := sent[i]
		if c.kind != "link" && c.pos != c.want {
			r.Violate(P, "consumption", c.kind+":"+c05Modes[c.mode], "%s reading from a %s that holds several frames: after frame %d (%s) the position is %d, the frame ends at %d", c05Modes[c.mode], c.kind, i, sr.kind, c.pos, c.want)
		}
		if c.kind == "link" && int(c.srcPos) != sr.end {
			r.Violate(P, "consumption", "stream:"+c05Modes[c.mode], "%s on the link: after frame %d (%s) %d bytes had been consumed; the frame spans [%d,%d)", c05Modes[c.mode], i, sr.kind, c.srcPos, sr.start, sr.end)
		}
	}
	if cut && cutTried && cutErr == nil {
		r.Violate(P, "proxy", "truncated-frame-accepted:"+c05Modes[cutMode], "%s returned no error for a frame of which only the first %d bytes arrived before the stream ended (source %s, version %v, compression %v)", c05Modes[cutMode], len(cutBytes), []string{"link", "*bytes.Reader", "*bytes.Buffer", "*bufio.Reader"}[cutSrc], v, comp)
	}
	// end to end: the reader sees exactly the non-dropped frames, equal to what was written, in order
	var want []sentRec
	for i, s := range sent {
		if modes[i] != 5 {
			if m := modified[i]; m != nil {
				s.f = m
			}
			want = append(want, s)
		}
	}
	// what the proxy put on link B is exactly one well-framed frame per forwarded frame, nothing more
	if fs, rest, err := RSplitFrames(b1.Tap().Sent); err != nil || len(rest) != 0 || len(fs) != len(want) {
		r.Violate(P, "end-to-end", "forwarded-stream-not-framed", "the proxy forwarded %d frames; split by declared lengths, its output holds %d frames and %d trailing bytes (err=%v, cut=%v)", len(want), len(fs), len(rest), err, cut)
	}
	if len(got) != len(want) {
		r.Violate(P, "end-to-end", "count-mismatch", "reader decoded %d frames, %d were forwarded (reader error: %v)", len(got), len(want), readErr)
	}
	for i := 0; i < len(got) && i < len(want); i++ {
		if ok, diff := FramesEqual(want[i].f, got[i], false); !ok {
			r.Violate(P, "end-to-end", "frame-differs:"+want[i].kind, "frame %d (%s) forwarded by the proxy differs from what was written: %s", i, want[i].kind, diff)
			break
		}
	}
	// both decoding routes agree on the tapped bytes of every frame
	stream := a1.Tap().Sent
	for i, s := range sent {
		if s.end > len(stream) {
			break
		}
		b := stream[s.start:s.end]
		var f1, f2 *frame.Frame
		var e1, e2 error
		if guardHuge(func() {
			f1, e1 = pcodec.DecodeFrame(bytes.NewReader(b))
			var raw *frame.RawFrame
			raw, e2 = pcodec.DecodeRawFrame(bytes.NewReader(b))
			if e2 == nil {
				f2, e2 = pcodec.ConvertFromRawFrame(raw)
			}
		}) {
			r.Probes["huge_alloc_refused_in_oracle"]++
			break
		}
		if (e1 == nil) != (e2 == nil) {
			r.Violate(P, "routes-agree", "error-differs:"+s.kind, "frame %d (%s): DecodeFrame err=%v, DecodeRawFrame+ConvertFromRawFrame err=%v", i, s.kind, e1, e2)
		} else if e1 == nil {
			if ok, diff := FramesEqual(f1, f2, false); !ok {
				r.Violate(P, "routes-agree", "frame-differs:"+s.kind, "frame %d (%s): DecodeFrame and DecodeRawFrame+ConvertFromRawFrame disagree: %s", i, s.kind, diff)
			}
		}
	}
	r.Nontrivial = len(got) >= 1
	if r.Spec.Trace {
		var l []string
		for i, s := range sent {
			l = append(l, fmt.Sprintf("%s via %s seekable=%v", s.kind, c05Modes[modes[i]], seekable[i]))
		}
		r.Sample = map[string]interface{}{"frames": l}
	}
}

// c05Forward forwards one frame from in to out with the given partial operation.
func c05Forward(c frame.RawCodec, mode int, in io.Reader, out io.Writer) error {
	switch mode {
	case 0:
		raw, err := c.DecodeRawFrame(in)
		if err != nil {
			return err
		}
		return c.EncodeRawFrame(raw, out)
	case 1:
		h, err := c.DecodeHeader(in)
		if err != nil {
			return err
		}
		body, err := c.DecodeRawBody(h, in)
		if err != nil {
			return err
		}
		if err := c.EncodeHeader(h, out); err != nil {
			return err
		}
		_, err = out.Write(body)
		return err
	case 2:
		raw, err := c.DecodeRawFrame(in)
		if err != nil {
			return err
		}
		f, err := c.ConvertFromRawFrame(raw)
		if err != nil {
			return err
		}
		raw2, err := c.ConvertToRawFrame(f)
		if err != nil {
			return err
		}
		return c.EncodeRawFrame(raw2, out)
	case 3:
		h, err := c.DecodeHeader(in)
		if err != nil {
			return err
		}
		body, err := c.DecodeBody(h, in)
		if err != nil {
			return err
		}
		var buf bytes.Buffer
		if err := c.EncodeBody(h, body, &buf); err != nil {
			return err
		}
		h.BodyLength = int32(buf.Len())
		if err := c.EncodeHeader(h, out); err != nil {
			return err
		}
		_, err = out.Write(buf.Bytes())
		return err
	case 4:
		f, err := c.DecodeFrame(in)
		if err != nil {
			return err
		}
		return c.EncodeFrame(f, out)
	default:
		h, err := c.DecodeHeader(in)
		if err != nil {
			return err
		}
		return c.DiscardBody(h, in)
	}
}

// c05Reencode: "any bytes that decode successfully and are re-encoded decode again to an equal frame",
// over valid encodings and over encodings mutated in transit (bit flips, overwritten length fields).
func c05Reencode(r *Run) {
	const P = "C05"
	T := r.T
	v := r.DrawVersion()
	comp := r.DrawCompression(v)
	n := 4 + T.Draw("nframes", 24)
	r.Config["version"] = v.String()
	r.Config["compression"] = string(comp)
	codec := frameCodecFor(comp)
	done := false
	decoded, mutatedDecoded := 0, 0
	r.Go("proxy", func() {
		for i := 0; i < n; i++ {
			f := GenFrame(T, GenOpts{Version: v, Requests: true, Responses: true, MaxBytes: 3000, BigChance: 0.1, Compressible: true, HeaderFlags: true}, DrawStreamId(T, v))
			if comp != primitive.CompressionNone && T.Bool("compressflag", 0.5) {
				markCompressed(T, f)
			}
			var buf bytes.Buffer
			if err := codec.EncodeFrame(f, &buf); err != nil {
				continue
			}
			wire := buf.Bytes()
			mutated := T.Bool("mutate", 0.6)
			// a compressed body starts with its declared uncompressed length (4-byte int for LZ4, varint
			// for Snappy): corrupting that makes the decompressor allocate up to 4 GiB, which is slow and
			// is C04's business; keep mutations behind it
			protect := v.FrameHeaderLengthInBytes()
			if f.Header.Flags.Contains(primitive.HeaderFlagCompressed) {
				protect += 6
			}
			if mutated && len(wire) > protect+8 {
				switch T.Draw("mutkind", 3) {
				case 0:
					for k := 0; k <= T.Draw("nflips", 3); k++ {
						b := protect*8 + T.Draw("flipbit", (len(wire)-protect)*8)
						// do not turn the high bytes of a small big-endian count into millions of
						// elements (00 00 .. -> 01 00 ..): that only makes the decoder allocate gigabytes,
						// which is C04's business (huge declared counts), not this clause's
						if i := b / 8; wire[i] == 0 && i+1 < len(wire) && wire[i+1] == 0 {
							continue
						}
						wire[b/8] ^= 1 << uint(b%8)
					}
					r.Faults["flip"]++
				case 1: // overwrite a 2-byte field somewhere in the body
					hl := protect
					if len(wire) > hl+2 {
						o := hl + T.Draw("setoff", len(wire)-hl-1)
						vals := [][]byte{{0, 0}, {0, 1}, {0xff, 0xff}, {0, 0x7f}, {0x80, 0}} // no large positive values: see the note on counts above
						copy(wire[o:], vals[T.Draw("setval", len(vals))])
						r.Faults["setlen16"]++
					}
				default: // overwrite a 4-byte field
					hl := protect
					if len(wire) > hl+4 {
						o := hl + T.Draw("setoff", len(wire)-hl-3)
						// huge positive lengths (0x7fffffff) are left to C04, whose workers run under a memory limit
						vals := [][]byte{{0, 0, 0, 0}, {0, 0, 0, 1}, {0xff, 0xff, 0xff, 0xff}, {0xff, 0xff, 0xff, 0xfe}, {0, 0, 0x40, 0}, {0x80, 0, 0, 0}}
						copy(wire[o:], vals[T.Draw("setval", len(vals))])
						r.Faults["setlen32"]++
					}
				}
				// keep the declared body length truthful so that the mutation reaches the body decoder
			}
			f1, err := c05SafeDecode(codec, wire)
			r.Yield("reencode.decoded")
			if err == errDecodePanicked {
				r.Probes["decode_panicked_left_to_C04"]++
				continue
			}
			if err != nil {
				continue // errors are fine here; panics are C04's business
			}
			if rows, ok := f1.Body.Message.(*message.RowsResult); ok && len(rows.Data) > 100000 {
				// a flipped count field can declare millions of zero-column rows without any bytes
				// behind them; re-encoding that is only slow, not informative
				r.Probes["huge_decoded_frame_skipped"]++
				continue
			}
			decoded++
			if mutated {
				mutatedDecoded++
			}
			var buf2 bytes.Buffer
			snapshot := f1.DeepCopy()
			if err := codec.EncodeFrame(f1, &buf2); err != nil {
				r.Violate(P, "reencode", "reencode-error:"+c05Input(mutated), "bytes (mutated=%v) decoded successfully as %s but the decoded frame cannot be encoded again: %v", mutated, KindOf(f1.Body.Message), err)
				continue
			}
			f2, err := codec.DecodeFrame(bytes.NewReader(buf2.Bytes()))
			if err != nil {
				r.Violate(P, "reencode", "redecode-error:"+c05Input(mutated), "bytes (mutated=%v) decoded successfully as %s, were re-encoded, and the result does not decode: %v", mutated, KindOf(f1.Body.Message), err)
				continue
			}
			if ok, diff := FramesEqual(snapshot, f2, false); !ok {
				r.Violate(P, "reencode", "reencoded-differs:"+c05Input(mutated), "bytes (mutated=%v) decoded as %s; re-encoding and decoding again gives a different frame: %s", mutated, KindOf(f1.Body.Message), diff)
			}
		}
		done = true
	})
	if !r.Drive() || !done {
		r.Violate(P, "liveness", "stuck", "re-encode loop did not finish")
		return
	}
	r.Probes["decoded_ok"] += decoded
	r.Probes["mutated_decoded_ok"] += mutatedDecoded
	r.Nontrivial = decoded > 0
}


func c05Input(mutated bool) string {
	if mutated {
		return "mutated-input"
	}
	return "valid-input"
}

var errDecodePanicked = fmt.Errorf("decoder panicked")

func c05SafeDecode(c frame.RawCodec, wire []byte) (f *frame.Frame, err error) {
	defer func() {
		if p := recover(); p != nil {
			f, err = nil, errDecodePanicked
		}
	}()
	return c.DecodeFrame(bytes.NewReader(wire))
}

// c05MaxBytes: a link with a capacity of a few bytes costs several scheduler steps per byte; keep frames
// small there so that the step budget is about liveness, not about link speed.
func c05MaxBytes(a, b LinkOpts) int {
	if a.Capacity < 64 || b.Capacity < 64 {
		return 1500
	}
	return 20000
}

// dataEOFReader returns its last bytes TOGETHER with io.EOF, as io.Reader allows (tls.Conn after
// close_notify, HTTP bodies and iotest.DataErrReader do).
type dataEOFReader struct {
	data  []byte
	pos   int
	chunk int
}

func (d *dataEOFReader) Read(p []byte) (int, error) {
	if d.pos >= len(d.data) {
		return 0, io.EOF
	}
	n := len(p)
	if n > d.chunk {
		n = d.chunk
	}
	if n > len(d.data)-d.pos {
		n = len(d.data) - d.pos
	}
	copy(p, d.data[d.pos:d.pos+n])
	d.pos += n
	if d.pos == len(d.data) {
		return n, io.EOF
	}
	return n, nil
}

// c05ForwardM is c05Forward with the editing variant of DecodeFrame>EncodeFrame.
func c05ForwardM(c frame.RawCodec, mode int, in io.Reader, out io.Writer, modify bool, modified *map[int]*frame.Frame, idx int) error {
	if mode != 4 || !modify {
		return c05Forward(c, mode, in, out)
	}
	f, err := c.DecodeFrame(in)
	if err != nil {
		return err
	}
	v := f.Header.Version
	switch {
	case f.Header.IsResponse && v >= primitive.ProtocolVersion4:
		f.SetWarnings(append(append([]string{}, f.Body.Warnings...), "added by the proxy"))
	case !f.Header.IsResponse && v >= primitive.ProtocolVersion4:
		cp := map[string][]byte{"proxy": {1, 2, 3}}
		for k, val := range f.Body.CustomPayload {
			cp[k] = val
		}
		f.SetCustomPayload(cp)
	default:
		if q, ok := f.Body.Message.(*message.Query); ok {
			q.Query += " /* proxied */"
		}
	}
	(*modified)[idx] = f.DeepCopy()
	return c.EncodeFrame(f, out)
}
