package sim

import (
	"math"
	"sync"
)

// Tape is the single source of every decision in a run (DESIGN.md §3.1). In exploration mode values
// come from a PRNG seeded with (seed, property, run index) and are recorded; in replay mode they are
// read back. 0 is always the boring choice, which is what makes tapes shrinkable.
type Tape struct {
	mu     sync.Mutex
	state  uint64 // splitmix64 state (exploration)
	replay []uint32
	isRep  bool
	Rec    []uint32
	Draws  int
	// Limit: in replay mode, draws beyond the recorded tape return 0.
}

func splitmix(x *uint64) uint64 {
	*x += 0x9e3779b97f4a7c15
	z := *x
	z = (z ^ (z >> 30)) * 0xbf58476d1ce4e5b9
	z = (z ^ (z >> 27)) * 0x94d049bb133111eb
	return z ^ (z >> 31)
}

// Mix derives a run seed from the global seed, a property tag and the run index.
func Mix(seed int64, tag string, idx int) uint64 {
	x := uint64(seed)
	for _, c := range []byte(tag) {
		x = x*1099511628211 ^ uint64(c)
	}
	x ^= uint64(idx) * 0x9e3779b97f4a7c15
	s := x
	return splitmix(&s)
}

func NewTape(seed uint64) *Tape { return &Tape{state: seed} }

func NewReplayTape(vals []uint32) *Tape { return &Tape{replay: vals, isRep: true} }

func (t *Tape) next(n int, gen func() int) int {
	t.mu.Lock()
	defer t.mu.Unlock()
	t.Draws++
	var v int
	if t.isRep {
		if len(t.Rec) < len(t.replay) {
			v = int(t.replay[len(t.Rec)] % uint32(n))
		}
	} else {
		v = gen()
	}
	t.Rec = append(t.Rec, uint32(v))
	return v
}

// Draw returns a uniform value in [0,n).
func (t *Tape) Draw(site string, n int) int {
	if n <= 1 {
		return 0
	}
	return t.next(n, func() int { return int(splitmix(&t.state) % uint64(n)) })
}

// DrawP returns 0 with probability pZero and otherwise a uniform value in [1,n).
func (t *Tape) DrawP(site string, n int, pZero float64) int {
	if n <= 1 {
		return 0
	}
	return t.next(n, func() int {
		u := float64(splitmix(&t.state)>>11) / float64(1<<53)
		if u < pZero {
			return 0
		}
		return 1 + int(splitmix(&t.state)%uint64(n-1))
	})
}

// DrawGeo returns a value in [0,n) with a geometric-ish distribution favouring small values.
func (t *Tape) DrawGeo(site string, n int) int {
	if n <= 1 {
		return 0
	}
	return t.next(n, func() int {
		u := float64(splitmix(&t.state)>>11) / float64(1<<53)
		v := int(math.Floor(-math.Log(1-u) * float64(n) / 6))
		if v >= n {
			v = n - 1
		}
		return v
	})
}

func (t *Tape) Bool(site string, pTrue float64) bool {
	return t.DrawP(site, 2, 1-pTrue) == 1
}

// Pick returns one of the given ints (first = boring).
func (t *Tape) Pick(site string, vals ...int) int { return vals[t.Draw(site, len(vals))] }

func (t *Tape) Recorded() []uint32 {
	t.mu.Lock()
	defer t.mu.Unlock()
	return append([]uint32(nil), t.Rec...)
}
