package sim

import (
	"strings"
	"sort"
	"bytes"
	"fmt"
	"math/big"
	"net"
	"reflect"
	"time"

	"github.com/datastax/go-cassandra-native-protocol/compression/lz4"
	"github.com/datastax/go-cassandra-native-protocol/compression/snappy"
	"github.com/datastax/go-cassandra-native-protocol/datacodec"
	"github.com/datastax/go-cassandra-native-protocol/datatype"
	"github.com/datastax/go-cassandra-native-protocol/frame"
	"github.com/datastax/go-cassandra-native-protocol/primitive"
	"github.com/datastax/go-cassandra-native-protocol/segment"
)

// C18 — codecs can be shared by concurrent goroutines (DESIGN.md §5 C18). Built with the "codecs"
// instrumentation profile: every statement of frame, segment, message, primitive, datatype,
// datacodec, compression and crc is a scheduling point. M tasks share codec instances; each call's
// result must equal the result of the same call in a sequential pass on the same instances before
// the concurrent phase, and a second sequential pass afterwards must still agree.

func init() {
	Register(&Scenario{Name: "share", Property: "C18", Body: c18Share})
	props["C18"] = &propDef{Case: func(w *Worker, i int) { w.Exec(RunSpec{Scenario: "share", Index: i}) }}
}

type shareOp struct {
	name string
	run  func() (interface{}, error)
}

type shareRes struct {
	val interface{}
	err string
}

func shareEqual(a, b shareRes) (bool, string) {
	if a.err != b.err {
		return false, fmt.Sprintf("error %q vs %q", a.err, b.err)
	}
	switch x := a.val.(type) {
	case []byte:
		y, ok := b.val.([]byte)
		if !ok || !bytes.Equal(x, y) {
			return false, fmt.Sprintf("bytes differ (%d vs %d bytes)", len(x), len(y))
		}
		return true, ""
	case *frame.Frame:
		y, ok := b.val.(*frame.Frame)
		if !ok || x == nil || y == nil {
			return (x == nil) == (y == nil) && ok, "frame nil-ness differs"
		}
		return FramesEqual(x, y, false)
	}
	if !reflect.DeepEqual(a.val, b.val) {
		return false, fmt.Sprintf("values differ: %#v vs %#v", a.val, b.val)
	}
	return true, ""
}

func runOp(op shareOp) shareRes {
	v, err := op.run()
	if err != nil {
		return shareRes{err: err.Error()}
	}
	return shareRes{val: v}
}

// shared instances
type sharedCodecs struct {
	frameCodecs   []frame.RawCodec
	frameNames    []string
	segmentCodecs []segment.Codec
	lz4           lz4.Compressor
	snappy        snappy.Compressor
	list, set, mp, tuple, udt datacodec.Codec
}

func newSharedCodecs() *sharedCodecs {
	s := &sharedCodecs{}
	s.frameCodecs = []frame.RawCodec{frame.NewRawCodec(), frame.NewRawCodecWithCompression(lz4.Compressor{}), frame.NewRawCodecWithCompression(snappy.Compressor{})}
	s.frameNames = []string{"none", "lz4", "snappy"}
	s.segmentCodecs = []segment.Codec{segment.NewCodec(), segment.NewCodecWithCompression(lz4.Compressor{})}
	s.list, _ = datacodec.NewList(datatype.NewList(datatype.Int))
	s.set, _ = datacodec.NewSet(datatype.NewSet(datatype.Varchar))
	s.mp, _ = datacodec.NewMap(datatype.NewMap(datatype.Varchar, datatype.Int))
	s.tuple, _ = datacodec.NewTuple(datatype.NewTuple(datatype.Int, datatype.Varchar))
	if ut, err := datatype.NewUserDefined("ks", "point", []string{"a", "b"}, []datatype.DataType{datatype.Int, datatype.Varchar}); err == nil {
		s.udt, _ = datacodec.NewUserDefined(ut)
	}
	return s
}

// c18Focus narrows one run to one family of shared state (swarm testing): a defect that needs several
// overlapping calls of the same compressor or codec instance is out of reach when every call is drawn
// from the whole menu.
type c18Focus struct {
	kind       int // 0 everything, 1 frames of one codec, 2 segments of one codec, 3 one compressor, 4 value codecs
	codec      int // frame codec index / segment codec index / compressor
	dtype      int
	growing    bool // payload sizes grow from call to call
	sizeCursor int
}

func c18GenOps(T *Tape, sc *sharedCodecs, task int, n int, fo *c18Focus) []shareOp {
	var ops []shareOp
	versions := allVersions
	for j := 0; j < n; j++ {
		tag := fmt.Sprintf("t%d.%d", task, j)
		opkind := T.Draw("opkind", 6)
		switch fo.kind {
		case 5:
			opkind = 5
		case 1:
			opkind = 0
		case 2:
			opkind = 2
		case 3:
			opkind = 3
		case 4:
			opkind = 4
		}
		sizeOf := func(site string, mean int) int {
			n := T.DrawGeo(site, mean)
			if fo.growing {
				fo.sizeCursor += 1 + n/4
				n = fo.sizeCursor
			}
			return n
		}
		switch opkind {
		case 0, 1: // frame encode + decode on a shared frame codec
			v := versions[T.Draw("version", len(versions))]
			ci := T.Draw("fcodec", len(sc.frameCodecs))
			if fo.kind == 1 {
				ci = fo.codec % len(sc.frameCodecs)
				if ci == 2 {
					versions = []primitive.ProtocolVersion{primitive.ProtocolVersion2, primitive.ProtocolVersion3, primitive.ProtocolVersion4}
				}
			}
			if sc.frameNames[ci] == "snappy" && !v.SupportsCompression(primitive.CompressionSnappy) {
				ci = 0
			}
			f := GenFrame(T, GenOpts{Version: v, Requests: T.Bool("req", 0.5), Responses: true, MaxBytes: c18MaxBytes(T, fo), BigChance: 0.2, Compressible: T.Bool("compressible", 0.5), HeaderFlags: true}, DrawStreamId(T, v))
			if ci != 0 && (T.Bool("compressflag", 0.7) || fo.kind == 1) {
				markCompressed(T, f)
			}
			var encoded []byte
			ops = append(ops, shareOp{name: tag + ":EncodeFrame/" + sc.frameNames[ci] + "/" + KindOf(f.Body.Message), run: func() (interface{}, error) {
				var buf bytes.Buffer
				err := sc.frameCodecs[ci].EncodeFrame(f.DeepCopy(), &buf)
				if err == nil {
					encoded = append([]byte(nil), buf.Bytes()...)
				}
				return append([]byte(nil), buf.Bytes()...), err
			}})
			ops = append(ops, shareOp{name: tag + ":DecodeFrame/" + sc.frameNames[ci] + "/" + KindOf(f.Body.Message), run: func() (interface{}, error) {
				if encoded == nil {
					return nil, nil
				}
				return sc.frameCodecs[ci].DecodeFrame(bytes.NewReader(encoded))
			}})
			if T.Bool("raw", 0.4) {
				ops = append(ops, shareOp{name: tag + ":DecodeRawFrame+Convert/" + sc.frameNames[ci], run: func() (interface{}, error) {
					if encoded == nil {
						return nil, nil
					}
					raw, err := sc.frameCodecs[ci].DecodeRawFrame(bytes.NewReader(encoded))
					if err != nil {
						return nil, err
					}
					return sc.frameCodecs[ci].ConvertFromRawFrame(raw)
				}})
			}
		case 2: // segment encode + decode
			ci := T.Draw("scodec", len(sc.segmentCodecs))
			if fo.kind == 2 {
				ci = fo.codec % len(sc.segmentCodecs)
			}
			size := sizeOf("segsize", 3000)
			payload := c07Payload(T.Draw("segkind", 3), size, uint64(task*1000+j))
			self := T.Bool("self", 0.5)
			var encoded []byte
			ops = append(ops, shareOp{name: fmt.Sprintf("%s:EncodeSegment/%d", tag, ci), run: func() (interface{}, error) {
				var buf bytes.Buffer
				seg := &segment.Segment{Header: &segment.Header{IsSelfContained: self}, Payload: &segment.Payload{UncompressedData: append([]byte(nil), payload...)}}
				err := sc.segmentCodecs[ci].EncodeSegment(seg, &buf)
				if err == nil {
					encoded = append([]byte(nil), buf.Bytes()...)
				}
				return append([]byte(nil), buf.Bytes()...), err
			}})
			ops = append(ops, shareOp{name: fmt.Sprintf("%s:DecodeSegment/%d", tag, ci), run: func() (interface{}, error) {
				if encoded == nil {
					return nil, nil
				}
				seg, err := sc.segmentCodecs[ci].DecodeSegment(bytes.NewReader(encoded))
				if err != nil {
					return nil, err
				}
				return append([]byte{map[bool]byte{false: 0, true: 1}[seg.Header.IsSelfContained]}, seg.Payload.UncompressedData...), nil
			}})
		case 3: // compressors, both formats
			size := sizeOf("csize", 3000)
			data := c07Payload(T.Draw("ckind", 3), size, uint64(task*77+j))
			which := T.Draw("compressor", 3)
			if fo.kind == 3 {
				which = fo.codec % 3
			}
			ops = append(ops, shareOp{name: fmt.Sprintf("%s:compress/%d", tag, which), run: func() (interface{}, error) {
				var c, d bytes.Buffer
				switch which {
				case 0:
					if err := sc.lz4.CompressWithLength(bytes.NewReader(data), &c); err != nil {
						return nil, err
					}
					if err := sc.lz4.DecompressWithLength(bytes.NewReader(c.Bytes()), &d); err != nil {
						return nil, err
					}
				case 1:
					if err := sc.lz4.Compress(bytes.NewReader(data), &c); err != nil {
						return nil, err
					}
					if len(data) > 0 {
						if err := sc.lz4.Decompress(bytes.NewReader(c.Bytes()), &d); err != nil {
							return nil, err
						}
					}
				default:
					if err := sc.snappy.CompressWithLength(bytes.NewReader(data), &c); err != nil {
						return nil, err
					}
					if err := sc.snappy.DecompressWithLength(bytes.NewReader(c.Bytes()), &d); err != nil {
						return nil, err
					}
				}
				if !bytes.Equal(d.Bytes(), data) {
					return nil, fmt.Errorf("decompress(compress(x)) != x: %d bytes in, %d bytes out", len(data), d.Len())
				}
				return append(append([]byte(nil), c.Bytes()...), d.Bytes()...), nil
			}})
		case 5: // type descriptors: nested data types written and read back through the datatype package
			v := versions[T.Draw("version", len(versions))]
			depth := 1 + T.Draw("dt.depth", 10)
			var dt datatype.DataType = []datatype.DataType{datatype.Int, datatype.Varchar, datatype.Uuid}[T.Draw("dt.leaf", 3)]
			for d := 1; d < depth; d++ {
				switch T.Draw("dt.shape", 3) {
				case 0:
					dt = datatype.NewList(dt)
				case 1:
					dt = datatype.NewSet(dt)
				default:
					dt = datatype.NewMap(datatype.Varchar, dt)
				}
			}
			ops = append(ops, shareOp{name: fmt.Sprintf("%s:datatype/depth%d", tag, depth), run: func() (interface{}, error) {
				var buf bytes.Buffer
				if err := datatype.WriteDataType(dt, &buf, v); err != nil {
					return nil, err
				}
				back, err := datatype.ReadDataType(bytes.NewReader(buf.Bytes()), v)
				if err != nil {
					return nil, err
				}
				if fmt.Sprint(back) != fmt.Sprint(dt) {
					return nil, fmt.Errorf("ReadDataType(WriteDataType(t)) != t: %v vs %v", back, dt)
				}
				return append([]byte(nil), buf.Bytes()...), nil
			}})
		default: // CQL value codecs: package singletons and shared composite codecs
			v := versions[T.Draw("version", len(versions))]
			k := T.Draw("dtype", 23)
			if fo.kind == 4 && T.Bool("samedtype", 0.7) {
				k = fo.dtype
				if k >= 18 {
					k = 18 + T.Draw("dtype.free", 3) // the three collection kinds decoded into interface{}, mixed
				}
			}
			x := int64(T.Draw("val", 1<<20)) - 1<<19
			ops = append(ops, shareOp{name: fmt.Sprintf("%s:datacodec/%d", tag, k), run: func() (interface{}, error) { return c18Value(sc, k, x, v) }})
		}
	}
	return ops
}

// c18Value encodes a value with a shared CQL value codec, decodes it back and returns both.
func c18Value(sc *sharedCodecs, k int, x int64, v primitive.ProtocolVersion) (interface{}, error) {
	type rt struct {
		Enc []byte
		Dec interface{}
		Nul bool
	}
	rtrip := func(c datacodec.Codec, src interface{}, dest interface{}) (interface{}, error) {
		enc, err := c.Encode(src, v)
		if err != nil {
			return nil, err
		}
		wasNull, err := c.Decode(enc, dest, v)
		if err != nil {
			return nil, err
		}
		dec := reflect.ValueOf(dest).Elem().Interface()
		if _, free := dest.(*interface{}); free {
			dec = canon(reflect.ValueOf(dec)) // pointer-keyed maps and pointer elements compare by content
		}
		return rt{Enc: enc, Dec: dec, Nul: wasNull}, nil
	}
	s := fmt.Sprintf("v%d", x)
	switch k {
	case 0:
		var d int32
		return rtrip(datacodec.Int, int32(x), &d)
	case 1:
		var d int64
		return rtrip(datacodec.Bigint, x*1000003, &d)
	case 2:
		var d string
		return rtrip(datacodec.Varchar, s, &d)
	case 3:
		var d []byte
		return rtrip(datacodec.Blob, []byte(s), &d)
	case 4:
		var d bool
		return rtrip(datacodec.Boolean, x%2 == 0, &d)
	case 5:
		var d float64
		return rtrip(datacodec.Double, float64(x)/7, &d)
	case 6:
		var d float32
		return rtrip(datacodec.Float, float32(x)/3, &d)
	case 7:
		// lengths from 1 to ~40 bytes, both signs (x is negative half of the time)
		var d *big.Int
		return rtrip(datacodec.Varint, new(big.Int).Lsh(big.NewInt(x), uint(8*((x&0xff)%40))), &d)
	case 21:
		var d datacodec.CqlDecimal
		return rtrip(datacodec.Decimal, datacodec.CqlDecimal{Unscaled: new(big.Int).Lsh(big.NewInt(x), uint(8*((x>>3&0xff)%30))), Scale: int32(x % 1000)}, &d)
	case 22:
		if !(v == primitive.ProtocolVersion5 || v.IsDse()) {
			var d int64
			return rtrip(datacodec.Bigint, x, &d)
		}
		var d datacodec.CqlDuration
		return rtrip(datacodec.Duration, datacodec.CqlDuration{Months: int32(x), Days: int32(x * 31), Nanos: time.Duration(x) * 1000003}, &d)
	case 8:
		var d time.Time
		return rtrip(datacodec.Timestamp, time.Unix(x, 0).UTC(), &d)
	case 9:
		var d net.IP
		return rtrip(datacodec.Inet, net.IPv4(10, byte(x>>16), byte(x>>8), byte(x)).To4(), &d)
	case 10:
		var d int16
		if v < primitive.ProtocolVersion4 {
			var d32 int32
			return rtrip(datacodec.Int, int32(x), &d32)
		}
		return rtrip(datacodec.Smallint, int16(x), &d)
	case 11:
		var d []int32
		return rtrip(sc.list, []int32{int32(x), int32(x + 1), 7}, &d)
	case 12:
		var d []string
		return rtrip(sc.set, []string{s, "a", "b"}, &d)
	case 13:
		var d map[string]int32
		return rtrip(sc.mp, map[string]int32{s: int32(x)}, &d) // one entry: reflect map order is outside the rewriter's reach
	case 14:
		if v < primitive.ProtocolVersion3 {
			var d string
			return rtrip(datacodec.Ascii, "ascii"+s, &d)
		}
		var d []interface{}
		return rtrip(sc.tuple, []interface{}{int32(x), s}, &d)
	case 18: // collections decoded into interface{}: the codec picks the Go type itself
		var d interface{}
		return rtrip(sc.list, []int32{int32(x), 7}, &d)
	case 19:
		var d interface{}
		return rtrip(sc.set, []string{s, "b"}, &d)
	case 20:
		var d interface{}
		return rtrip(sc.mp, map[string]int32{s: int32(x)}, &d)
	case 16: // user-defined type mapped to a Go struct (by field tag) and to a map
		if v < primitive.ProtocolVersion3 || sc.udt == nil {
			var d string
			return rtrip(datacodec.Varchar, s, &d)
		}
		var d c04Point
		return rtrip(sc.udt, c04Point{A: int32(x), B: s}, &d)
	case 17:
		if v < primitive.ProtocolVersion3 || sc.udt == nil {
			var d int64
			return rtrip(datacodec.Bigint, x, &d)
		}
		var d map[string]interface{}
		return rtrip(sc.udt, map[string]interface{}{"a": int32(x), "b": s}, &d)
	default:
		var d primitive.UUID
		u := primitive.UUID{}
		for i := range u {
			u[i] = byte(x >> uint(i%8))
		}
		return rtrip(datacodec.Uuid, u, &d)
	}
}

func c18Share(r *Run) {
	const P = "C18"
	T := r.T
	r.S.SortedMaps = true // byte-comparable encodings across passes (DESIGN.md §5 C18)
	M := 2 + T.Draw("tasks", 3)
	sc := newSharedCodecs()
	// 0: the instances have been used (sequential reference pass) before they are shared;
	// 1: the reference pass runs on twin instances, the shared ones see their FIRST calls concurrently;
	// 2: no reference pass at all: instances and package-level state are cold when the tasks start, the
	//    results are compared with a sequential pass made afterwards.
	mode := T.DrawP("coldness", 3, 0.5)
	r.Config["first_use"] = []string{"sequential (warm instances)", "concurrent (fresh instances, warm package state)", "concurrent (fresh instances, cold package state)"}[mode]
	fo := &c18Focus{}
	if T.Bool("focus", 0.4) {
		fo.kind = 1 + T.Draw("focus.kind", 5)
		fo.codec = T.Draw("focus.codec", 6)
		fo.dtype = []int{11, 12, 13, 14, 16, 17, 18, 19, 20, 7, 21, 22, 7, 21, 22}[T.Draw("focus.dtype", 15)]
		fo.growing = T.Bool("focus.growing", 0.5)
		M = 3 + T.Draw("focus.tasks", 4)
	}
	r.Config["focus"] = []string{"everything", "frames of one codec", "segments of one codec", "one compressor", "value codecs", "nested type descriptors"}[fo.kind]
	var all [][]shareOp
	total := 0
	for t := 0; t < M; t++ {
		nops := 1 + T.Draw("nops", 3)
		if fo.kind != 0 {
			nops += T.Draw("focus.moreops", 4)
		}
		ops := c18GenOps(T, sc, t, nops, fo)
		all = append(all, ops)
		total += len(ops)
	}
	r.Config["tasks"] = fmt.Sprint(M)
	r.Config["ops"] = fmt.Sprint(total)
	// pass 1: sequential reference on the same instances (run by one task so that the instrumented
	// code executes exactly as it will later; nothing else is runnable, so it is sequential)
	ref := make([][]shareRes, M)
	conc := make([][]shareRes, M)
	after := make([][]shareRes, M)
	seqPass := func(dst [][]shareRes, label string) bool {
		done := false
		r.Go(label, func() {
			for t := range all {
				dst[t] = make([]shareRes, len(all[t]))
				for i, op := range all[t] {
					dst[t][i] = runOp(op)
				}
			}
			done = true
		})
		return r.Drive() && done
	}
	if mode != 2 && !seqPass(ref, "seq1") {
		r.Violate(P, "liveness", "sequential-pass-stuck", "sequential reference pass did not finish")
		return
	}
	if mode == 1 {
		*sc = *newSharedCodecs()
	}
	beforeSwitches := r.repoSwitches
	// concurrent phase
	finished := make([]bool, M)
	for t := range all {
		t := t
		conc[t] = make([]shareRes, len(all[t]))
		r.Go(fmt.Sprintf("task%d", t), func() {
			for i, op := range all[t] {
				conc[t][i] = runOp(op)
			}
			finished[t] = true
		})
	}
	if !r.Drive() {
		r.Violate(P, "liveness", "step-budget", "concurrent phase did not finish within the step budget")
		return
	}
	for t, ok := range finished {
		if !ok {
			r.Violate(P, "liveness", "blocked", "task %d did not finish its calls on shared codecs", t)
			return
		}
	}
	r.Nontrivial = r.repoSwitches > beforeSwitches
	if !seqPass(after, "seq2") {
		r.Violate(P, "liveness", "sequential-pass-stuck", "second sequential pass did not finish")
		return
	}
	if mode == 2 {
		ref = after
	}
	for t := range all {
		for i, op := range all[t] {
			if ok, diff := shareEqual(ref[t][i], conc[t][i]); !ok {
				r.Violate(P, "concurrent-equals-sequential", c18OpClass(op.name), "call %s returned a different result when made concurrently with %d other tasks than sequentially: %s", op.name, M-1, diff)
			}
			if ok, diff := shareEqual(ref[t][i], after[t][i]); !ok {
				r.Violate(P, "no-lasting-corruption", c18OpClass(op.name), "call %s returns a different result after the concurrent phase than before it: %s", op.name, diff)
			}
			r.Probes["op:"+c18OpClass(op.name)]++
		}
	}
	if r.Spec.Trace {
		var names []string
		for t := range all {
			for _, op := range all[t] {
				names = append(names, op.name)
			}
		}
		r.Sample = map[string]interface{}{"calls": names}
	}
}

func c18OpClass(name string) string {
	// "t0.1:EncodeFrame/lz4/QUERY" -> "EncodeFrame/lz4"
	for i := 0; i < len(name); i++ {
		if name[i] == ':' {
			name = name[i+1:]
			break
		}
	}
	parts := 0
	for i := 0; i < len(name); i++ {
		if name[i] == '/' {
			parts++
			if parts == 2 {
				return name[:i]
			}
		}
	}
	return name
}

// canon renders a decoded value by content: pointers are followed, map entries sorted.
func canon(v reflect.Value) string {
	if !v.IsValid() {
		return "<invalid>"
	}
	switch v.Kind() {
	case reflect.Ptr, reflect.Interface:
		if v.IsNil() {
			return "nil"
		}
		return "&" + canon(v.Elem())
	case reflect.Slice, reflect.Array:
		parts := make([]string, v.Len())
		for i := range parts {
			parts[i] = canon(v.Index(i))
		}
		return v.Type().String() + "[" + strings.Join(parts, " ") + "]"
	case reflect.Map:
		var parts []string
		it := v.MapRange()
		for it.Next() {
			parts = append(parts, canon(it.Key())+":"+canon(it.Value()))
		}
		sort.Strings(parts)
		return v.Type().String() + "{" + strings.Join(parts, " ") + "}"
	}
	return fmt.Sprintf("%v", v.Interface())
}

// c18MaxBytes: mostly small fields; now and then fields beyond 4 KiB and 64 KiB (sizes at which a
// decoder may switch to another buffer strategy and leave state behind for the calls that follow).
func c18MaxBytes(T *Tape, fo *c18Focus) int {
	switch T.DrawP("maxbytes", 3, 0.6) {
	case 1:
		return 12000
	case 2:
		return 90000
	}
	return 3000
}
