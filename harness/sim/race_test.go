package sim

import (
	"encoding/json"
	"fmt"
	"os"
	"reflect"
	"sync"
	"testing"
	"time"

	"github.com/datastax/go-cassandra-native-protocol/primitive"
)

// TestRaceSupplement is the supplementary, NON-deterministic part of C18 (DESIGN.md §5 C18): the same
// generated workload as the "share" scenario, run by real parallel goroutines with no scheduler
// installed, in a binary built with -race. The race detector reports data races on stderr (the driver
// turns a report into a violation); result mismatches against the sequential pass are reported too.
func TestRaceSupplement(t *testing.T) {
	path := os.Getenv("VERIF_RACE_JOB")
	if path == "" {
		t.Skip("VERIF_RACE_JOB not set")
	}
	var job struct {
		Seed    int64  `json:"seed"`
		Seconds int    `json:"seconds"`
		Out     string `json:"out"`
	}
	b, err := os.ReadFile(path)
	if err != nil {
		t.Fatal(err)
	}
	if err := json.Unmarshal(b, &job); err != nil {
		t.Fatal(err)
	}
	deadline := time.Now().Add(time.Duration(job.Seconds) * time.Second)
	iters, calls := 0, 0
	var mismatches []string
	for i := 0; time.Now().Before(deadline); i++ {
		T := NewTape(Mix(job.Seed, "C18/race", i))
		M := 2 + T.Draw("tasks", 3)
		sc := newSharedCodecs()
		fo := &c18Focus{}
		if T.Bool("focus", 0.4) {
			fo.kind, fo.codec, fo.dtype, fo.growing = 1+T.Draw("focus.kind", 5), T.Draw("focus.codec", 6), []int{11, 12, 13, 14, 16, 17, 18, 19, 20, 7, 21, 22, 7, 21, 22}[T.Draw("focus.dtype", 15)], T.Bool("focus.growing", 0.5)
			M = 3 + T.Draw("focus.tasks", 4)
		}
		var all [][]shareOp
		for k := 0; k < M; k++ {
			all = append(all, c18GenOps(T, sc, k, 1+T.Draw("nops", 3), fo))
		}
		// Concurrent phase FIRST, on freshly created codec instances and — for the struct-mapped UDT
		// calls — on a struct type that did not exist before this iteration: lazily filled caches are
		// then still cold when the goroutines start, which is when unsynchronised initialisation races.
		// The sequential reference is computed afterwards (results must agree either way).
		fresh := freshStructOps(sc, i, M)
		got := make([][]shareRes, M)
		var wg sync.WaitGroup
		start := make(chan struct{})
		for k := range all {
			k := k
			got[k] = make([]shareRes, len(all[k]))
			wg.Add(1)
			go func() {
				defer wg.Done()
				<-start
				_ = runOp(fresh[k])
				// every goroutine also encodes and decodes one duration (multi-byte vints) and one long negative
				// varint per iteration: value kinds that the drawn workload reaches rarely
				_, _ = c18Value(sc, 22, int64(100000+k*77777+i), primitive.ProtocolVersion5)
				_, _ = c18Value(sc, 7, -int64(1000+k*31+i), primitive.ProtocolVersion4)
				for rep := 0; rep < 3; rep++ {
					for j, op := range all[k] {
						got[k][j] = runOp(op)
					}
				}
			}()
		}
		close(start)
		wg.Wait()
		ref := make([][]shareRes, M)
		for k := range all {
			ref[k] = make([]shareRes, len(all[k]))
			for j, op := range all[k] {
				ref[k][j] = runOp(op)
			}
		}
		for k := range all {
			for j, op := range all[k] {
				calls += 3
				if ok, diff := shareEqual(ref[k][j], got[k][j]); !ok && len(mismatches) < 5 {
					mismatches = append(mismatches, fmt.Sprintf("iteration %d (seed %d) %s: %s", i, job.Seed, op.name, diff))
				}
			}
		}
		iters++
	}
	out, _ := json.Marshal(map[string]interface{}{"iterations": iters, "calls": calls, "mismatches": mismatches})
	_ = os.WriteFile(job.Out, out, 0644)
}

// freshStructOps returns, for each of m goroutines, one call that decodes a UDT value into a struct type
// created for this iteration with reflect.StructOf (a type the library has never seen), all through the
// same shared UDT codec.
func freshStructOps(sc *sharedCodecs, iter, m int) []shareOp {
	ops := make([]shareOp, m)
	if sc.udt == nil {
		for k := range ops {
			ops[k] = shareOp{name: "noop", run: func() (interface{}, error) { return nil, nil }}
		}
		return ops
	}
	// exported fields with unique names per iteration make a new type identity
	st := reflect.StructOf([]reflect.StructField{
		{Name: fmt.Sprintf("A%d", iter), Type: reflect.TypeOf(int32(0)), Tag: reflect.StructTag(`cassandra:"a"`)},
		{Name: fmt.Sprintf("B%d", iter), Type: reflect.TypeOf(""), Tag: reflect.StructTag(`cassandra:"b"`)},
	})
	enc, err := sc.udt.Encode(map[string]interface{}{"a": int32(iter), "b": "x"}, primitive.ProtocolVersion4)
	for k := range ops {
		ops[k] = shareOp{name: "datacodec/UDT->fresh struct", run: func() (interface{}, error) {
			if err != nil {
				return nil, err
			}
			dest := reflect.New(st).Interface()
			_, e := sc.udt.Decode(enc, dest, primitive.ProtocolVersion4)
			return nil, e
		}}
	}
	return ops
}
