package sim

import (
	"fmt"
	"hash/fnv"
	"os"
	"runtime"
	"sort"
	"strings"
	"testing"
	"testing/synctest"
	"time"

	"verif/simrt"
)

// Violation is one oracle failure. Class is the stable discriminator (DESIGN.md §3.7).
type Violation struct {
	Property string `json:"property"`
	Oracle   string `json:"oracle"`
	Class    string `json:"class"`
	Message  string `json:"message"`
	Step     int    `json:"step"`
}

func (v Violation) Key() string { return v.Property + "|" + v.Oracle + "|" + v.Class }

// RunSpec identifies one run completely: with the same instrumented sources it is a pure function.
type RunSpec struct {
	Property string   `json:"property"`
	Scenario string   `json:"scenario"`
	Seed     int64    `json:"seed"`
	Index    int      `json:"index"`
	Tier     string   `json:"tier"`
	Tape     []uint32 `json:"tape,omitempty"` // non-nil: replay
	// Params are enumerated (not drawn) parameters, e.g. the crash step and fault kind of C16/C07.
	Params map[string]int `json:"params,omitempty"`
	Trace    bool     `json:"-"`
}

// RunResult is what a run reports.
type RunResult struct {
	Spec        RunSpec           `json:"spec"`
	Hash        uint64            `json:"hash"`
	Steps       int               `json:"steps"`
	Tasks       int               `json:"tasks"`
	Draws       int               `json:"draws"`
	FakeNs      int64             `json:"fake_ns"`
	Violations  []Violation       `json:"violations,omitempty"`
	Faults      map[string]int    `json:"faults,omitempty"`
	Probes      map[string]int    `json:"probes,omitempty"`
	Nontrivial  bool              `json:"nontrivial"`
	Config      map[string]string `json:"config,omitempty"`
	Tape        []uint32          `json:"tape,omitempty"`
	Trace       []string          `json:"trace,omitempty"`
	Sample      interface{}       `json:"sample,omitempty"`
	Aux         map[string][]int64 `json:"-"`
	Evals       int               `json:"evals,omitempty"` // >0: number of evaluations this run stands for (enumerations)
	BubblePanic string            `json:"bubble_panic,omitempty"`
	Leaked      int               `json:"leaked"`
}

// Run is the state of one simulated execution.
type Run struct {
	Spec  RunSpec
	T     *Tape
	S     *simrt.Sched
	Net   *Net
	Start time.Time

	hash       uint64
	trace      []string
	keepTrace  bool
	violations []Violation
	vioKeys    map[string]bool
	Faults     map[string]int
	Probes     map[string]int
	Config     map[string]string
	Sample     interface{}
	Aux        map[string][]int64
	Evals      int
	Nontrivial bool

	strategy   string
	pStay      float64
	last       *simrt.Task
	pctPoints  map[int]int // step -> new (low) priority
	stepHooks  []func(step int) bool
	cleanups   []func()
	StepBudget int
	Horizon    time.Duration
	seenPanics int
	// PanicProperty is the property a recorded panic is attributed to.
	PanicProperty string
	// LeaveCloseFamilyToC16: panics of the Close protocol ("send on / close of closed channel" inside
	// package client) are counted, not judged, by scenarios of other properties; such a run is then not
	// judged further (in production the process would have died).
	LeaveCloseFamilyToC16 bool
	CloseFamilyPanics     int
	switches      int
	listenOpts    map[string]LinkOpts
	tearing       bool
	// Post runs after the bubble has ended, outside of it (real clock, real goroutines): used for
	// history checks such as porcupine that must not run on the fake clock.
	Post func()
	seq  int64
	// lastActive is the fake time of the last scheduling step before teardown (simulated time covered).
	lastActive time.Duration
	repoSwitches  int
}

const fnvPrime = 1099511628211

func (r *Run) mixHash(s string) {
	h := r.hash
	for i := 0; i < len(s); i++ {
		h ^= uint64(s[i])
		h *= fnvPrime
	}
	h ^= 0xff
	h *= fnvPrime
	r.hash = h
}

// Event records a harness-level event in the event log. Must only be called by the task that holds
// the baton (or by the scheduler).
func (r *Run) Event(format string, a ...interface{}) {
	s := fmt.Sprintf(format, a...)
	r.mixHash(s)
	if r.keepTrace {
		r.trace = append(r.trace, fmt.Sprintf("%6d t=%-12v   %s", r.S.Steps, r.Now(), s))
	}
}

func (r *Run) Now() time.Duration { return time.Since(r.Start) }

func (r *Run) Fault(kind string) { r.Faults[kind]++; r.Event("FAULT %s", kind) }
func (r *Run) Probe(name string) { r.Probes[name]++ }

func (r *Run) Violate(property, oracle, class, format string, a ...interface{}) {
	if r.tearing {
		return
	}
	v := Violation{Property: property, Oracle: oracle, Class: class, Message: fmt.Sprintf(format, a...), Step: r.S.Steps}
	if r.vioKeys[v.Key()] {
		return
	}
	r.vioKeys[v.Key()] = true
	r.violations = append(r.violations, v)
	r.Event("VIOLATION %s", v.Key())
	if os.Getenv("VERIF_DEBUG") == "stacks" {
		buf := make([]byte, 1<<20)
		fmt.Fprintf(os.Stderr, "=== goroutines at %s\n%s\n", v.Key(), buf[:runtime.Stack(buf, true)])
	}
}

// Stamp returns the next global event sequence number (history timestamps).
func (r *Run) Stamp() int64 { r.seq++; return r.seq }

// OnStep registers a hook that the scheduler calls before every scheduling decision; it returns
// true once it is spent.
func (r *Run) OnStep(f func(step int) bool) { r.stepHooks = append(r.stepHooks, f) }

// Cleanup registers a function run (inside a task) during teardown.
func (r *Run) Cleanup(f func()) { r.cleanups = append(r.cleanups, f) }

// Go starts a harness task.
func (r *Run) Go(label string, fn func()) *simrt.Task { return simrt.GoHarness(label, fn) }

// Yield is a scheduling point for harness tasks.
func (r *Run) Yield(site string) { simrt.Yield("h:" + site) }

// Sleep advances the calling harness task by d of fake time.
func (r *Run) Sleep(d time.Duration) {
	time.Sleep(d)
	simrt.Yield("h:sleep")
}

func (r *Run) chooseStrategy() {
	switch r.T.Draw("strategy", 6) {
	case 0:
		r.strategy, r.pStay = "rw", 0.9
	case 1:
		r.strategy, r.pStay = "rw", 0.98
	case 2:
		r.strategy, r.pStay = "rw", 0.7
	case 3:
		r.strategy, r.pStay = "rw", 0.0
	case 4, 5:
		r.strategy = "pct"
		d := 1 + r.T.Draw("pct.d", 5)
		est := 200 + r.T.Draw("pct.est", 3000)
		r.pctPoints = map[int]int{}
		for i := 1; i < d; i++ {
			r.pctPoints[r.T.Draw("pct.point", est)] = d - i
		}
	}
	r.Config["strategy"] = r.strategy
	if r.strategy == "rw" {
		r.Config["p_stay"] = fmt.Sprint(r.pStay)
	}
}

func (r *Run) pick(parked []*simrt.Task) *simrt.Task {
	if len(parked) == 1 && r.strategy != "pct" {
		// still a decision point, but nothing to draw
		return parked[0]
	}
	switch r.strategy {
	case "pct":
		if p, ok := r.pctPoints[r.S.Steps]; ok && r.last != nil {
			r.last.Prio = p
		}
		best := parked[0]
		for _, t := range parked[1:] {
			if t.Prio > best.Prio {
				best = t
			}
		}
		return best
	default:
		// candidates: current task first (so that 0 = keep running), then the others by id
		cands := parked
		if r.last != nil {
			for i, t := range parked {
				if t == r.last {
					cands = make([]*simrt.Task, 0, len(parked))
					cands = append(cands, t)
					cands = append(cands, parked[:i]...)
					cands = append(cands, parked[i+1:]...)
					break
				}
			}
		}
		return cands[r.T.DrawP("sched", len(cands), r.pStay)]
	}
}

// Drive runs the scheduler until the system is quiescent (no task parked and nothing happens for a
// whole horizon of fake time) or every task has finished. It returns false if the step budget ran out.
func (r *Run) Drive() bool {
	for {
		synctest.Wait()
		r.checkPanics()
		if len(r.stepHooks) > 0 {
			kept := r.stepHooks[:0]
			for _, h := range r.stepHooks {
				if !h(r.S.Steps) {
					kept = append(kept, h)
				}
			}
			r.stepHooks = kept
			synctest.Wait()
		}
		parked := r.S.Parked()
		if len(parked) > 0 {
			t := r.pick(parked)
			if t != r.last {
				r.switches++
				if r.last != nil && strings.HasPrefix(t.At, "client.") && strings.HasPrefix(r.last.At, "client.") ||
					(r.last != nil && !strings.HasPrefix(t.At, "h:") && !strings.HasPrefix(r.last.At, "h:") && t.At != "spawn") {
					r.repoSwitches++
				}
			}
			r.last = t
			r.mixHash(t.ID)
			r.mixHash(t.At)
			if r.keepTrace {
				r.trace = append(r.trace, fmt.Sprintf("%6d t=%-12v %-10s %s", r.S.Steps, r.Now(), t.ID, t.At))
			}
			if !r.tearing {
				r.lastActive = r.Now()
			}
			r.S.Release(t)
			if r.S.Steps > r.StepBudget {
				return false
			}
			continue
		}
		if r.S.NLive() == 0 {
			return true
		}
		timer := time.NewTimer(r.Horizon)
		select {
		case <-r.S.KickChan():
			timer.Stop()
		case <-timer.C:
			synctest.Wait()
			if r.S.NParked() == 0 {
				return true
			}
		}
	}
}

func (r *Run) checkPanics() {
	ps := r.S.PanicsCopy()
	for _, p := range ps[r.seenPanics:] {
		fn := simrt.InnermostRepoFunc(p.Stack)
		val := p.Value
		if len(val) > 120 {
			val = val[:120]
		}
		prop := r.PanicProperty
		if prop == "" {
			r.Probes["panics_left_to_another_property"]++
			continue
		}
		if r.LeaveCloseFamilyToC16 && strings.Contains(p.Value, "closed channel") && strings.HasPrefix(fn, "client.") {
			// a send on / close of a channel that Close has closed, inside package client: the Close
			// protocol, which C16 judges (several sites are known findings there)
			r.CloseFamilyPanics++
			r.Probes["close_protocol_panics_left_to_C16"]++
			continue
		}
		r.Violate(prop, "no-panic", fmt.Sprintf("panic:%s@%s", normalizePanic(val), fn),
			"task %s (spawned at %s, last yield %s) panicked: %s\n%s", p.Task, p.Spawn, p.At, p.Value, trimStack(p.Stack))
	}
	r.seenPanics = len(ps)
}

func normalizePanic(v string) string {
	// strip addresses and numbers that vary between inputs and runs: 0x... -> 0x?, digit runs -> #
	var b strings.Builder
	for i := 0; i < len(v); i++ {
		c := v[i]
		if c == '0' && i+1 < len(v) && v[i+1] == 'x' {
			b.WriteString("0x?")
			i += 2
			for i < len(v) && ((v[i] >= '0' && v[i] <= '9') || (v[i] >= 'a' && v[i] <= 'f')) {
				i++
			}
			i--
			continue
		}
		if c >= '0' && c <= '9' {
			b.WriteByte('#')
			for i+1 < len(v) && v[i+1] >= '0' && v[i+1] <= '9' {
				i++
			}
			continue
		}
		b.WriteByte(c)
	}
	return b.String()
}

func trimStack(s string) string {
	lines := strings.Split(s, "\n")
	if len(lines) > 24 {
		lines = lines[:24]
	}
	return strings.Join(lines, "\n")
}

// Blocked describes live tasks that are neither parked nor finished (blocked in a real primitive or
// waiting for a simulated mutex) — meaningful only after Drive returned.
func (r *Run) Blocked() []*simrt.Task {
	var out []*simrt.Task
	for _, t := range r.S.Live() {
		if t.State != simrt.StParked {
			out = append(out, t)
		}
	}
	return out
}

// SiteFunc strips ordinal and position from a site: "client.T.f#12:pre@file.go:10" -> "client.T.f".
func SiteFunc(site string) string {
	if i := strings.IndexByte(site, '#'); i >= 0 {
		return site[:i]
	}
	return site
}

// Scenario is one family of simulated executions.
type Scenario struct {
	Name     string
	Property string
	// NoBubble: the body runs on the calling goroutine with the real clock and no scheduler (used by
	// re-executions of direct, non-simulated checks that need a real-time watchdog).
	NoBubble bool
	// Body runs inside the bubble on the scheduler goroutine: it sets the run up (spawning tasks),
	// calls r.Drive as often as it wants, and evaluates oracles.
	Body func(r *Run)
}

var scenarios = map[string]*Scenario{}

func Register(s *Scenario) { scenarios[s.Property+"/"+s.Name] = s }

func ScenarioNames(property string) []string {
	var out []string
	for k, s := range scenarios {
		if s.Property == property {
			out = append(out, strings.TrimPrefix(k, property+"/"))
		}
	}
	sort.Strings(out)
	return out
}

// Execute performs one run inside a fresh synctest bubble.
func init() {
	// all packages of the code under test are initialised by now: remember their package-level state
	simrt.SnapshotGlobals()
}

func Execute(t *testing.T, spec RunSpec) (res RunResult) {
	res.Spec = spec
	sc := scenarios[spec.Property+"/"+spec.Scenario]
	if sc == nil {
		res.BubblePanic = "unknown scenario " + spec.Property + "/" + spec.Scenario
		return
	}
	// every run starts from the package-level state of a freshly started process (simrt.RegisterGlobals)
	simrt.RestoreGlobals()
	var r *Run
	if sc.NoBubble {
		var tape *Tape
		if spec.Tape != nil {
			tape = NewReplayTape(spec.Tape)
		} else {
			tape = NewTape(Mix(spec.Seed, spec.Property+"/"+spec.Scenario, spec.Index))
		}
		r = &Run{Spec: spec, T: tape, Start: time.Now(), hash: 14695981039346656037, keepTrace: spec.Trace,
			vioKeys: map[string]bool{}, Faults: map[string]int{}, Probes: map[string]int{}, Config: map[string]string{}, PanicProperty: spec.Property}
		r.S = simrt.New(tape)
		func() {
			defer func() {
				if p := recover(); p != nil {
					res.BubblePanic = fmt.Sprint(p)
				}
			}()
			sc.Body(r)
		}()
		res.Hash, res.Violations, res.Faults, res.Probes, res.Config = r.hash, r.violations, r.Faults, r.Probes, r.Config
		res.Nontrivial, res.Sample, res.Tape, res.Trace, res.Evals = r.Nontrivial, r.Sample, r.T.Recorded(), r.trace, r.Evals
		return
	}
	bodyDone := false
	func() {
		defer func() {
			if p := recover(); p != nil {
				msg := fmt.Sprint(p)
				if (strings.Contains(msg, "blocked goroutines remain") || strings.Contains(msg, "deadlock")) && bodyDone {
					// expected when a run leaks goroutines; leaks are reported by the oracles
					return
				}
				if strings.Contains(msg, "refused by the guard") {
					// an oracle decoded hostile bytes on the scheduler's goroutine and hit the allocation
					// guard: what has been judged so far stands, nothing further is judged
					if r != nil {
						r.Probes["huge_alloc_refused_in_oracle"]++
					}
					return
				}
				if !bodyDone {
					msg = "scenario body did not return (blocked on the scheduler's own goroutine?): " + msg
				}
				buf := make([]byte, 8192)
				n := runtime.Stack(buf, false)
				res.BubblePanic = msg + "\n" + string(buf[:n])
			}
		}()
		synctest.Test(t, func(t *testing.T) {
			var tape *Tape
			if spec.Tape != nil {
				tape = NewReplayTape(spec.Tape)
			} else {
				tape = NewTape(Mix(spec.Seed, spec.Property+"/"+spec.Scenario, spec.Index))
			}
			r = &Run{Spec: spec, T: tape, Start: time.Now(), hash: 14695981039346656037, keepTrace: spec.Trace,
				vioKeys: map[string]bool{}, Faults: map[string]int{}, Probes: map[string]int{}, Config: map[string]string{},
				StepBudget: 400000, Horizon: 100*time.Hour + 7, PanicProperty: spec.Property}
			r.S = simrt.New(tape)
			r.S.OnSpawn = func(t *simrt.Task) {
				if r.strategy == "pct" {
					t.Prio = 10 + r.T.Draw("pct.prio", 1000)
				}
			}
			simrt.Install(r.S)
			defer simrt.Uninstall()
			r.S.Root()
			r.Net = newNet(r)
			r.chooseStrategy()
			sc.Body(r)
			bodyDone = true
			r.checkPanics()
			r.teardown()
		})
	}()
	if r != nil && r.Post != nil && res.BubblePanic == "" {
		r.tearing = false
		r.Post()
	}
	if r != nil {
		res.Hash = r.hash
		res.Steps = r.S.Steps
		res.Tasks = r.S.NTasks()
		res.Draws = r.T.Draws
		res.FakeNs = int64(r.lastActive)
		res.Violations = r.violations
		res.Faults = r.Faults
		r.Probes["lock_contended"] += r.S.LockContended
		r.Probes["select_multi_ready"] += r.S.SelectMulti
		r.Probes["map_range_permuted"] += r.S.MapRanges
		r.Probes["task_switches"] += r.switches
		r.Probes["repo_task_switches"] += r.repoSwitches
		res.Probes = r.Probes
		res.Config = r.Config
		res.Nontrivial = r.Nontrivial
		res.Sample = r.Sample
		res.Aux = r.Aux
		res.Evals = r.Evals
		res.Tape = r.T.Recorded()
		res.Trace = r.trace
		res.Leaked = r.S.NLive()
	}
	return
}

// teardown disposes of everything the run still holds so that goroutines exit: harness cleanups,
// all simulated connections, then every parked task is unwound.
func (r *Run) teardown() {
	r.tearing = true
	r.stepHooks = nil
	if len(r.cleanups) > 0 {
		cl := r.cleanups
		r.cleanups = nil
		r.Go("teardown", func() {
			for i := len(cl) - 1; i >= 0; i-- {
				cl[i]()
			}
		})
		r.keepTrace = false
		saved := r.hash
		r.Drive()
		r.hash = saved
	}
	r.Net.killAll()
	r.S.Abort()
	for i := 0; i < 100000; i++ {
		synctest.Wait()
		parked := r.S.Parked()
		if len(parked) == 0 {
			break
		}
		r.S.Release(parked[0])
	}
	synctest.Wait()
}

func hashStrings(ss []string) uint64 {
	h := fnv.New64a()
	for _, s := range ss {
		h.Write([]byte(s))
		h.Write([]byte{0})
	}
	return h.Sum64()
}

func debugf(format string, a ...interface{}) {
	if os.Getenv("VERIF_DEBUG") != "" {
		fmt.Fprintf(os.Stderr, format+"\n", a...)
	}
}

// guardHuge runs f and reports whether it hit the allocation guard (simrt.HugeAlloc); other panics pass.
func guardHuge(f func()) (huge bool) {
	defer func() {
		if p := recover(); p != nil {
			if _, ok := p.(simrt.HugeAlloc); ok {
				huge = true
				return
			}
			panic(p)
		}
	}()
	f()
	return false
}
