package sim

import (
	"encoding/binary"
	"fmt"
	"io"
	"strings"

	"github.com/golang/snappy"
	"github.com/pierrec/lz4/v4"
)

// RawPeer is a scripted counterpart that speaks the protocol through refwire only (DESIGN.md §3.5):
// as a server for the real client connection, or as a client for the real server connection. It
// chooses segmentation (how many envelopes per segment, where a large envelope is split) and can
// emit arbitrary bytes.
type RawPeer struct {
	r       *Run
	C       *Conn
	Version byte
	Comp    string // "", "lz4", "snappy": negotiated body/segment compression
	Modern  bool   // v5 segment framing active for what we SEND / RECEIVE
	inbuf   []byte // bytes read but not yet consumed
	partial []byte // payloads of non-self-contained segments being reassembled
	queue   []RFrame
	// Segmentation policy for writes (v5): drawn per call when nil.
	SegStats map[string]int
}

func NewRawPeer(r *Run, c *Conn, version byte) *RawPeer {
	return &RawPeer{r: r, C: c, Version: version, SegStats: map[string]int{}}
}

func (p *RawPeer) lz4Segments() bool { return p.Comp == "lz4" }

func (p *RawPeer) fill() error {
	buf := make([]byte, 65536)
	n, err := p.C.Read(buf)
	p.inbuf = append(p.inbuf, buf[:n]...)
	if n > 0 {
		return nil
	}
	if err == nil {
		err = io.ErrNoProgress
	}
	return err
}

// ReadFrame returns the next envelope sent by the library, whatever the framing.
func (p *RawPeer) ReadFrame() (RFrame, error) {
	for {
		if len(p.queue) > 0 {
			f := p.queue[0]
			p.queue = p.queue[1:]
			return f, nil
		}
		if !p.Modern {
			frames, rest, err := RSplitFrames(p.inbuf)
			if err != nil {
				return RFrame{}, err
			}
			if len(frames) > 0 {
				// take exactly one: the framing may change after it (handshake)
				f := frames[0]
				f.Body = append([]byte(nil), f.Body...)
				p.inbuf = append([]byte(nil), p.inbuf[f.End:]...)
				_ = rest
				return f, nil
			}
		} else {
			seg, err := RParseSegment(p.inbuf, p.lz4Segments())
			if err == nil {
				p.inbuf = append([]byte(nil), p.inbuf[seg.End:]...)
				if seg.SelfContained {
					frames, rest, err := RSplitFrames(seg.Payload)
					if err != nil {
						return RFrame{}, fmt.Errorf("envelopes inside segment: %w", err)
					}
					if len(rest) > 0 {
						return RFrame{}, fmt.Errorf("self-contained segment ends with %d bytes of an incomplete envelope", len(rest))
					}
					for i := range frames {
						frames[i].Body = append([]byte(nil), frames[i].Body...)
					}
					p.queue = append(p.queue, frames...)
					if len(frames) > 1 {
						p.SegStats["rx_multi_envelope_segments"]++
					}
				} else {
					p.partial = append(p.partial, seg.Payload...)
					p.SegStats["rx_partial_segments"]++
					frames, rest, err := RSplitFrames(p.partial)
					if err != nil {
						return RFrame{}, err
					}
					if len(frames) > 0 && len(rest) == 0 {
						for i := range frames {
							frames[i].Body = append([]byte(nil), frames[i].Body...)
						}
						p.queue = append(p.queue, frames...)
						p.partial = nil
					}
				}
				continue
			}
			if err != ErrShort {
				return RFrame{}, err
			}
		}
		if err := p.fill(); err != nil {
			return RFrame{}, err
		}
	}
}

// DecodeBody returns the uncompressed body of an envelope (per-envelope compression, v2-v4/DSE).
func (p *RawPeer) DecodeBody(f RFrame) ([]byte, error) {
	if f.H.Flags&RFlagCompressed == 0 {
		return f.Body, nil
	}
	switch p.Comp {
	case "lz4":
		return RLz4BodyDecompress(f.Body)
	case "snappy":
		return snappy.Decode(nil, f.Body)
	}
	return nil, fmt.Errorf("compressed envelope but no compression negotiated")
}

// CompressBody applies per-envelope compression (spec §5): LZ4 with a 4-byte length prefix, or a raw
// Snappy block.
func (p *RawPeer) CompressBody(body []byte) []byte {
	switch p.Comp {
	case "lz4":
		out := make([]byte, 4+lz4.CompressBlockBound(len(body)))
		binary.BigEndian.PutUint32(out, uint32(len(body)))
		n, err := lz4.CompressBlock(body, out[4:], nil)
		if err != nil {
			panic(err)
		}
		if n == 0 && len(body) > 0 {
			// incompressible: emit a literal-only block by hand (token, length bytes, literals)
			return append(out[:4], lz4Literals(body)...)
		}
		return out[:4+n]
	case "snappy":
		return snappy.Encode(nil, body)
	}
	return body
}

// lz4Literals encodes data as one LZ4 sequence made of literals only.
func lz4Literals(data []byte) []byte {
	var out []byte
	n := len(data)
	if n < 15 {
		out = append(out, byte(n<<4))
	} else {
		out = append(out, 0xF0)
		rem := n - 15
		for rem >= 255 {
			out = append(out, 255)
			rem -= 255
		}
		out = append(out, byte(rem))
	}
	return append(out, data...)
}

// Envelope builds one envelope; compress applies per-envelope compression and sets the flag.
func (p *RawPeer) Envelope(response bool, flags byte, stream int16, opcode byte, body []byte, compress bool) []byte {
	if p.Version == 5 || (p.Version&0x40 == 0 && p.Version >= 5) {
		// v5 is not beta in this library; no flag needed
	}
	if compress && p.Comp != "" && !p.Modern {
		body = p.CompressBody(body)
		flags |= RFlagCompressed
	}
	return RBuildFrame(RHeader{Version: p.Version, Response: response, Flags: flags, Stream: stream, Opcode: opcode}, body)
}

// Write sends raw bytes.
func (p *RawPeer) Write(b []byte) error {
	for len(b) > 0 {
		n, err := p.C.Write(b)
		if err != nil {
			return err
		}
		b = b[n:]
	}
	return nil
}

// SendEnvelopes writes the given envelopes in order. Under legacy framing they are concatenated;
// under v5 framing they are packed into segments with a drawn segmentation: several envelopes per
// self-contained segment, and envelopes split at drawn points over non-self-contained segments
// (always when they exceed the maximum payload, sometimes when they do not).
func (p *RawPeer) SendEnvelopes(envs [][]byte) error {
	if !p.Modern {
		for _, e := range envs {
			if err := p.Write(e); err != nil {
				return err
			}
		}
		return nil
	}
	T := p.r.T
	var out []byte
	i := 0
	for i < len(envs) {
		e := envs[i]
		split := len(e) > RMaxPayload || (len(e) > 20 && T.Bool("peer.split", 0.25))
		if split {
			// non-self-contained segments: parts of exactly one envelope
			rest := e
			parts := 0
			for len(rest) > 0 {
				max := RMaxPayload
				if max > len(rest) {
					max = len(rest)
				}
				n := max
				if len(rest) > 1 && T.Bool("peer.splitpoint", 0.7) {
					n = 1 + T.Draw("peer.splitat", max)
				}
				// The first part always holds the complete 9-byte envelope header: real servers cut
				// large envelopes into maximum-size parts, and the library reads the header from the
				// first part (a first part shorter than the header is not generated; see DESIGN.md).
				if parts == 0 && n < 9 {
					n = 9
				}
				if n == len(rest) && parts == 0 {
					n = len(rest) - 1 // a split envelope needs at least two parts
					if n < 1 {
						n = 1
					}
				}
				out = append(out, RBuildSegment(rest[:n], false, p.lz4Segments(), T.Bool("peer.rawseg", 0.3))...)
				rest = rest[n:]
				parts++
			}
			p.SegStats["tx_split_envelopes"]++
			p.SegStats["tx_partial_segments"] += parts
			i++
			continue
		}
		// self-contained: pack 1..k envelopes
		payload := append([]byte(nil), e...)
		k := 1
		for i+k < len(envs) && len(payload)+len(envs[i+k]) <= RMaxPayload && len(envs[i+k]) <= RMaxPayload && T.Bool("peer.pack", 0.5) {
			payload = append(payload, envs[i+k]...)
			k++
		}
		if k > 1 {
			p.SegStats["tx_multi_envelope_segments"]++
		}
		out = append(out, RBuildSegment(payload, true, p.lz4Segments(), T.Bool("peer.rawseg", 0.3))...)
		i += k
	}
	return p.Write(out)
}

// ServerHandshake plays the server side: reads OPTIONS/STARTUP under legacy framing, answers
// SUPPORTED/READY, and switches to v5 framing after READY when the version has it.
func (p *RawPeer) ServerHandshake() error {
	for {
		f, err := p.ReadFrame()
		if err != nil {
			return err
		}
		switch f.H.Opcode {
		case ROpOptions:
			if err := p.Write(p.Envelope(true, 0, f.H.Stream, ROpSupported, RBodySupported(map[string][]string{"COMPRESSION": {"lz4", "snappy"}}), false)); err != nil {
				return err
			}
		case ROpStartup:
			rr := RR{B: f.Body}
			opts := rr.StringMap()
			if rr.Err != nil {
				return fmt.Errorf("STARTUP body: %v", rr.Err)
			}
			comp := strings.ToLower(opts["COMPRESSION"])
			if err := p.Write(p.Envelope(true, 0, f.H.Stream, ROpReady, nil, false)); err != nil {
				return err
			}
			p.Comp = comp
			if p.Version == 5 {
				p.Modern = true
			}
			return nil
		default:
			return fmt.Errorf("unexpected opcode 0x%02x during handshake", f.H.Opcode)
		}
	}
}

// ClientHandshake plays the client side against the real server connection.
func (p *RawPeer) ClientHandshake(comp string, stream int16) error {
	opts := map[string]string{"CQL_VERSION": "3.0.0"}
	if comp != "" {
		// spelled as the library's own client spells it; the specification's lower-case "lz4" is not
		// understood by the library's server stub (noted in DESIGN.md, outside the property statement)
		opts["COMPRESSION"] = strings.ToUpper(comp)
	}
	if err := p.Write(p.Envelope(false, 0, stream, ROpStartup, RBodyStartup(opts), false)); err != nil {
		return err
	}
	f, err := p.ReadFrame()
	if err != nil {
		return err
	}
	if f.H.Opcode != ROpReady {
		return fmt.Errorf("expected READY, got opcode 0x%02x", f.H.Opcode)
	}
	p.Comp = comp
	if p.Version == 5 {
		p.Modern = true
	}
	return nil
}
