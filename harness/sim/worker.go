package sim

import (
	"encoding/json"
	"fmt"
	"os"
	"runtime"
	"syscall"
	"sort"
	"testing"
	"time"
)

// Job is what the driver (vcheck) hands to one worker process.
type Job struct {
	Property     string   `json:"property"`
	Tier         string   `json:"tier"`
	Seed         int64    `json:"seed"`
	Mode         string   `json:"mode"` // cases | replay | selftest
	From         int      `json:"from"`
	To           int      `json:"to"`
	Shard        int      `json:"shard"`
	NShards      int      `json:"nshards"`
	Known        []string `json:"known"`
	Out          string   `json:"out"`
	ReplayFile   string   `json:"replay_file"`
	ShrinkMs     int      `json:"shrink_ms"`
	DeadlineUnix int64    `json:"deadline_unix"`
	ReplayDir    string   `json:"replay_dir"`
	TraceLines   int      `json:"trace_lines"`
}

// ReplayFile is the on-disk form of a violation (DESIGN.md §3.1).
type ReplayFile struct {
	Property    string            `json:"property"`
	Oracle      string            `json:"oracle"`
	ClassKey    string            `json:"class_key"`
	Message     string            `json:"message"`
	Seed        int64             `json:"verif_seed"`
	Spec        RunSpec           `json:"spec"` // Spec.Tape is the minimised tape
	OrigTapeLen int               `json:"orig_tape_len"`
	OrigNonzero int               `json:"orig_tape_nonzero"`
	MinNonzero  int               `json:"min_tape_nonzero"`
	Hash        uint64            `json:"event_log_hash"`
	Config      map[string]string `json:"config"`
	Trace       []string          `json:"trace"`
	TreeHash    string            `json:"tree_hash,omitempty"`
}

type FoundViolation struct {
	V      Violation  `json:"violation"`
	Replay ReplayFile `json:"replay"`
	Path   string     `json:"path"`
}

type WorkerOut struct {
	Property       string                 `json:"property"`
	Cases          int                    `json:"cases"`
	Runs           int                    `json:"runs"`
	Hashes         []uint64               `json:"hashes"` // event-log fingerprints of non-trivial runs
	Steps          int64                  `json:"steps"`
	Tasks          int64                  `json:"tasks"`
	Draws          int64                  `json:"draws"`
	FakeNs         int64                  `json:"fake_ns"`
	Faults         map[string]int         `json:"faults"`
	Probes         map[string]int         `json:"probes"`
	Counters       map[string]int         `json:"counters"`
	Found          []FoundViolation       `json:"found"`
	VioCounts      map[string]int         `json:"violation_counts"`
	DetChecks      int                    `json:"determinism_checks"`
	DetFailures    []string               `json:"determinism_failures"`
	Samples        []interface{}          `json:"samples"`
	Errors         []string               `json:"errors"`
	Exhaustive     map[string]interface{} `json:"exhaustive,omitempty"`
	WallS          float64                `json:"wall_s"`
	Complete       bool                   `json:"complete"`
	RunsAfterKnown int                    `json:"runs_stopped_at_known_finding"`
}

type Worker struct {
	t     *testing.T
	Job   Job
	Out   WorkerOut
	known map[string]bool
	seen  map[string]bool
	start time.Time
	allHashes []uint64
}

// CaseFunc runs case number i of a property (one or more simulated runs).
type CaseFunc func(w *Worker, i int)

type propDef struct {
	Case    CaseFunc
	Default func(tier string) (cases int) // number of cases for a tier
	// Extra runs after the drawn cases (e.g. exhaustive enumerations), sharded.
	Extra func(w *Worker)
}

var props = map[string]*propDef{}

func (w *Worker) expired() bool {
	return w.Job.DeadlineUnix > 0 && time.Now().Unix() >= w.Job.DeadlineUnix
}

// Exec performs one run, folds its statistics into the worker output and handles violations.
func (w *Worker) Exec(spec RunSpec) RunResult {
	spec.Property = w.Job.Property
	spec.Seed = w.Job.Seed
	spec.Tier = w.Job.Tier
	t0 := time.Now()
	var m0 runtime.MemStats
	if os.Getenv("VERIF_DEBUG") != "" {
		runtime.ReadMemStats(&m0)
	}
	res := Execute(w.t, spec)
	if os.Getenv("VERIF_DEBUG") != "" {
		var m1 runtime.MemStats
		runtime.ReadMemStats(&m1)
		if d := m1.TotalAlloc - m0.TotalAlloc; d > 200<<20 {
			debugf("big alloc: %s/%s #%d allocated %d MiB", spec.Property, spec.Scenario, spec.Index, d>>20)
		}
	}
	if d := time.Since(t0); d > 2*time.Second {
		debugf("slow run: %s/%s #%d params=%v took %v (steps %d)", spec.Property, spec.Scenario, spec.Index, spec.Params, d, res.Steps)
		w.Out.Counters["slow_runs_over_2s"]++
	}
	w.Out.Runs++
	w.Out.Steps += int64(res.Steps)
	w.Out.Tasks += int64(res.Tasks)
	w.Out.Draws += int64(res.Draws)
	w.Out.FakeNs += res.FakeNs
	for k, v := range res.Faults {
		w.Out.Faults[k] += v
	}
	for k, v := range res.Probes {
		w.Out.Probes[k] += v
	}
	if res.BubblePanic != "" {
		w.Out.Errors = append(w.Out.Errors, fmt.Sprintf("bubble panic in %s/%s #%d: %s", spec.Property, spec.Scenario, spec.Index, res.BubblePanic))
		return res
	}
	w.allHashes = append(w.allHashes, res.Hash)
	if res.Nontrivial {
		w.Out.Hashes = append(w.Out.Hashes, res.Hash)
	}
	// determinism: every 50th run is executed twice
	if w.Out.Runs%50 == 1 {
		w.Out.DetChecks++
		again := Execute(w.t, spec)
		if again.Hash != res.Hash || again.Steps != res.Steps {
			// Either the machinery is not deterministic (fatal), or the code under test keeps
			// process-global state that differs between its first and later executions (a lazily filled
			// cache, a sync.Once): then the second and third executions agree with each other.
			third := Execute(w.t, spec)
			if third.Hash == again.Hash && third.Steps == again.Steps {
				w.Out.Counters["warmup_state_in_code_under_test_detected"]++
			} else {
				w.Out.DetFailures = append(w.Out.DetFailures, fmt.Sprintf("%s/%s #%d params=%v: hash %x/%x/%x steps %d/%d/%d", spec.Property, spec.Scenario, spec.Index, spec.Params, res.Hash, again.Hash, third.Hash, res.Steps, again.Steps, third.Steps))
			}
		}
	}
	if len(res.Violations) > 0 {
		w.handleViolations(spec, res)
	}
	if len(w.Out.Samples) < 3 && res.Nontrivial && len(res.Violations) == 0 && w.Out.Runs%7 == 3 {
		tr := spec
		tr.Trace = true
		tr.Tape = res.Tape
		s := Execute(w.t, tr)
		w.Out.Samples = append(w.Out.Samples, map[string]interface{}{
			"scenario": spec.Scenario, "index": spec.Index, "params": spec.Params, "config": s.Config, "steps": s.Steps,
			"fake_time": time.Duration(s.FakeNs).String(), "faults": s.Faults, "detail": s.Sample,
			"trace_excerpt": excerpt(s.Trace, 40),
		})
	}
	return res
}

func excerpt(tr []string, n int) []string {
	if len(tr) <= n {
		return tr
	}
	out := append([]string{}, tr[:n/2]...)
	out = append(out, fmt.Sprintf("... %d lines omitted ...", len(tr)-n))
	return append(out, tr[len(tr)-n/2:]...)
}

// firstReportable returns the first violation that is not a known finding, or nil; a known panic ends
// the judged part of a run.
func (w *Worker) firstReportable(vs []Violation) (*Violation, bool) {
	hitKnown := false
	for i := range vs {
		o := vs[i]
		if w.known[o.Key()] {
			hitKnown = true
			if o.Oracle == "no-panic" {
				return nil, true
			}
			continue
		}
		return &vs[i], hitKnown
	}
	return nil, hitKnown
}

func (w *Worker) reports(vs []Violation, key string) bool {
	v, _ := w.firstReportable(vs)
	return v != nil && v.Key() == key
}

func hasKey(vs []Violation, key string) bool {
	for _, v := range vs {
		if v.Key() == key {
			return true
		}
	}
	return false
}

func nonzero(t []uint32) int {
	n := 0
	for _, v := range t {
		if v != 0 {
			n++
		}
	}
	return n
}

func trimZeros(t []uint32) []uint32 {
	n := len(t)
	for n > 0 && t[n-1] == 0 {
		n--
	}
	return append([]uint32{}, t[:n]...)
}

func (w *Worker) handleViolations(spec RunSpec, res RunResult) {
	for _, v := range res.Violations {
		w.Out.VioCounts[v.Key()]++
	}
	// The first violation that is not a known finding is the one reported (later ones are usually
	// consequences). A known finding that is a panic ends the run as far as the oracles are
	// concerned: in production the process would have died there, so nothing after it is judged.
	v, hitKnown := w.firstReportable(res.Violations)
	if hitKnown {
		w.Out.RunsAfterKnown++
	}
	if v == nil {
		return
	}
	key := v.Key()
	if w.seen[key] {
		return
	}
	w.seen[key] = true
	// confirm by replay from the recorded tape
	rs := spec
	rs.Tape = res.Tape
	rs.Trace = true
	rep := Execute(w.t, rs)
	if w.reports(rep.Violations, key) && rep.Hash != res.Hash {
		// same violation, different event log: accept if the replay itself is stable (warm-up state in
		// the code under test, see above); the replay file records the hash of the final replayed run
		if rep2 := Execute(w.t, rs); rep2.Hash == rep.Hash && w.reports(rep2.Violations, key) {
			w.Out.Counters["warmup_state_in_code_under_test_detected"]++
			res.Hash = rep.Hash
		}
	}
	if !w.reports(rep.Violations, key) || rep.Hash != res.Hash {
		w.Out.DetFailures = append(w.Out.DetFailures, fmt.Sprintf("violation %s of %s/%s #%d params=%v did not reproduce on replay (hash %x vs %x, violations %v)", key, spec.Property, spec.Scenario, spec.Index, spec.Params, res.Hash, rep.Hash, rep.Violations))
		return
	}
	min := w.shrink(rs, key, res.Tape)
	ms := spec
	ms.Tape = min
	ms.Trace = true
	final := Execute(w.t, ms)
	if !w.reports(final.Violations, key) {
		// cannot happen (shrink only keeps failing tapes); fall back to the original
		ms.Tape = res.Tape
		final = rep
	}
	var fv Violation
	for _, o := range final.Violations {
		if o.Key() == key {
			fv = o
		}
	}
	rf := ReplayFile{Property: fv.Property, Oracle: fv.Oracle, ClassKey: key, Message: fv.Message, Seed: w.Job.Seed,
		Spec: ms, OrigTapeLen: len(res.Tape), OrigNonzero: nonzero(res.Tape), MinNonzero: nonzero(ms.Tape),
		Hash: final.Hash, Config: final.Config, Trace: excerpt(final.Trace, 400)}
	rf.Spec.Trace = false
	w.Out.Found = append(w.Out.Found, FoundViolation{V: fv, Replay: rf})
}

// shrink minimises the tape while the violation class persists (ddmin-style, bounded by wall time).
func (w *Worker) shrink(spec RunSpec, key string, tape []uint32) []uint32 {
	budget := time.Duration(w.Job.ShrinkMs) * time.Millisecond
	if budget <= 0 {
		budget = 15 * time.Second
	}
	deadline := time.Now().Add(budget)
	cur := trimZeros(tape)
	try := func(cand []uint32) bool {
		if time.Now().After(deadline) {
			return false
		}
		s := spec
		s.Trace = false
		s.Tape = cand
		if s.Tape == nil {
			s.Tape = []uint32{}
		}
		res := Execute(w.t, s)
		return res.BubblePanic == "" && w.reports(res.Violations, key)
	}
	// 1. shortest failing prefix (binary search, then verify)
	lo, hi := 0, len(cur)
	for lo < hi && time.Now().Before(deadline) {
		mid := (lo + hi) / 2
		if try(cur[:mid]) {
			hi = mid
		} else {
			lo = mid + 1
		}
	}
	if hi < len(cur) && try(cur[:hi]) {
		cur = trimZeros(cur[:hi])
	}
	// 2. zero out blocks, halving the block size
	for bs := len(cur) / 2; bs >= 1 && time.Now().Before(deadline); bs /= 2 {
		for i := 0; i < len(cur) && time.Now().Before(deadline); i += bs {
			j := i + bs
			if j > len(cur) {
				j = len(cur)
			}
			allZero := true
			for _, v := range cur[i:j] {
				if v != 0 {
					allZero = false
					break
				}
			}
			if allZero {
				continue
			}
			cand := append([]uint32{}, cur...)
			for k := i; k < j; k++ {
				cand[k] = 0
			}
			if try(cand) {
				cur = cand
			}
		}
	}
	// 3. delete blocks (shifts later draws; sometimes removes whole operations)
	for bs := len(cur) / 4; bs >= 1 && time.Now().Before(deadline); bs /= 2 {
		for i := 0; i+bs <= len(cur) && time.Now().Before(deadline); {
			cand := append(append([]uint32{}, cur[:i]...), cur[i+bs:]...)
			if try(cand) {
				cur = cand
			} else {
				i += bs
			}
		}
		if bs == 1 {
			break
		}
	}
	// 4. lower remaining values
	for i := 0; i < len(cur) && time.Now().Before(deadline); i++ {
		if cur[i] <= 1 {
			continue
		}
		for _, nv := range []uint32{1, cur[i] / 2, cur[i] - 1} {
			if nv >= cur[i] {
				continue
			}
			cand := append([]uint32{}, cur...)
			cand[i] = nv
			if try(cand) {
				cur = cand
				break
			}
		}
	}
	return trimZeros(cur)
}

// RunWorker is the entry point of a worker process (called from TestWorker).
func RunWorker(t *testing.T) {
	path := os.Getenv("VERIF_JOB")
	if path == "" {
		t.Skip("VERIF_JOB not set")
	}
	b, err := os.ReadFile(path)
	if err != nil {
		t.Fatal(err)
	}
	var job Job
	if err := json.Unmarshal(b, &job); err != nil {
		t.Fatal(err)
	}
	// safety net: this sandbox has no per-process memory limit; cap the address space so that a runaway
	// allocation kills this worker (exit 2 in the driver) instead of the whole machine
	_ = syscall.Setrlimit(syscall.RLIMIT_AS, &syscall.Rlimit{Cur: 24 << 30, Max: 24 << 30})
	w := &Worker{t: t, Job: job, known: map[string]bool{}, seen: map[string]bool{}, start: time.Now()}
	w.Out = WorkerOut{Property: job.Property, Faults: map[string]int{}, Probes: map[string]int{}, Counters: map[string]int{}, VioCounts: map[string]int{}, Exhaustive: map[string]interface{}{}}
	for _, k := range job.Known {
		w.known[k] = true
	}
	switch job.Mode {
	case "replay":
		w.replay()
	case "selftest":
		w.selftest()
	default:
		pd := props[job.Property]
		if pd == nil {
			w.Out.Errors = append(w.Out.Errors, "unknown property "+job.Property)
			break
		}
		for i := job.From; i < job.To; i++ {
			if w.expired() {
				break
			}
			pd.Case(w, i)
			w.Out.Cases++
		}
		if pd.Extra != nil {
			pd.Extra(w)
		}
		w.Out.Complete = !w.expired()
	}
	w.Out.WallS = time.Since(w.start).Seconds()
	sort.Slice(w.Out.Hashes, func(i, j int) bool { return w.Out.Hashes[i] < w.Out.Hashes[j] })
	ob, _ := json.Marshal(&w.Out)
	if err := os.WriteFile(job.Out, ob, 0644); err != nil {
		t.Fatal(err)
	}
}

// replay re-executes a replay file and reports whether the violation reproduces exactly.
func (w *Worker) replay() {
	b, err := os.ReadFile(w.Job.ReplayFile)
	if err != nil {
		w.Out.Errors = append(w.Out.Errors, err.Error())
		return
	}
	var rf ReplayFile
	if err := json.Unmarshal(b, &rf); err != nil {
		w.Out.Errors = append(w.Out.Errors, err.Error())
		return
	}
	spec := rf.Spec
	spec.Trace = true
	if spec.Tape == nil {
		spec.Tape = []uint32{}
	}
	res := Execute(w.t, spec)
	w.Out.Runs = 1
	w.Out.Counters["replay_reproduced"] = 0
	if hasKey(res.Violations, rf.ClassKey) {
		w.Out.Counters["replay_reproduced"] = 1
	}
	if res.Hash == rf.Hash {
		w.Out.Counters["replay_hash_equal"] = 1
	}
	for _, v := range res.Violations {
		w.Out.VioCounts[v.Key()]++
	}
	w.Out.Samples = append(w.Out.Samples, map[string]interface{}{"violations": res.Violations, "hash": res.Hash, "trace": excerpt(res.Trace, w.Job.TraceLines+200)})
	w.Out.Complete = true
}

// selftest: determinism of every scenario family over a batch of seeds; prints the aggregate hash so
// that the driver can compare it across processes and GOMAXPROCS settings.
func (w *Worker) selftest() {
	pd := props[w.Job.Property]
	if pd == nil {
		w.Out.Errors = append(w.Out.Errors, "unknown property "+w.Job.Property)
		return
	}
	for i := w.Job.From; i < w.Job.To; i++ {
		pd.Case(w, i)
		w.Out.Cases++
	}
	var agg uint64 = 14695981039346656037
	// order-sensitive aggregate over all runs (not only the non-trivial ones)
	for _, h := range w.allHashes {
		agg = (agg ^ h) * fnvPrime
	}
	w.Out.Counters["aggregate_hash_lo"] = int(agg & 0x7fffffff)
	w.Out.Counters["aggregate_hash_hi"] = int((agg >> 32) & 0x7fffffff)
	w.Out.Complete = true
}
