package sim

import (
	"bytes"
	"fmt"
	"io"
	"net"
	"reflect"
	"strings"

	"github.com/datastax/go-cassandra-native-protocol/primitive"
)

// C03, last clause of the statement: "the length each ... notation reports for itself equals the number
// of bytes its encoder writes". Frames exercise the notations only with the values a frame generator
// happens to draw, and some notations (vints) never travel in a frame at all, so this scenario sweeps the
// LengthOf*/Write*/Read* triples of package primitive directly: every magnitude class of the vints
// (2^k-1, 2^k, 2^k+1 with both signs for k = 0..63), lengths around every power of two for the
// length-prefixed notations, empty / nil / multi-entry collections, both address families.
// It is a direct sweep, not a simulation (nothing here blocks or interleaves); it is listed separately
// in the evidence. Oracles: bytes written == reported length; reading the bytes back yields the value and
// consumes exactly those bytes (a sentinel byte that follows stays unread).

func init() {
	Register(&Scenario{Name: "notations", Property: "C03", Body: c03Notations, NoBubble: true})
	pd := props["C03"]
	prev := pd.Case
	pd.Case = func(w *Worker, i int) {
		prev(w, i)
		if i%64 == 0 {
			w.Exec(RunSpec{Scenario: "notations", Index: i})
		}
	}
}

type notationCheck struct {
	r     *Run
	count int
}

func (c *notationCheck) one(name string, value interface{}, length int, lengthErr error, write func(io.Writer) error, read func(io.Reader) (interface{}, error)) {
	const P = "C03"
	c.count++
	var buf bytes.Buffer
	werr := write(&buf)
	if lengthErr != nil || werr != nil {
		if (lengthErr == nil) != (werr == nil) {
			c.r.Violate(P, "notation-length", "length-and-write-disagree-on-validity:"+name, "%s(%s): LengthOf reports err=%v but Write reports err=%v", name, clipStr(fmt.Sprint(value), 80), lengthErr, werr)
		}
		return
	}
	if buf.Len() != length {
		c.r.Violate(P, "notation-length", "notation-length-mismatch:"+name, "%s: LengthOf reports %d bytes, Write emits %d bytes (value %s)", name, length, buf.Len(), clipStr(fmt.Sprint(value), 80))
		return
	}
	if read == nil {
		return
	}
	wire := append(append([]byte(nil), buf.Bytes()...), 0xA5) // sentinel
	src := bytes.NewReader(wire)
	got, rerr := read(src)
	if rerr != nil {
		c.r.Violate(P, "notation-roundtrip", "notation-unreadable:"+name, "%s: the %d bytes written for %s cannot be read back: %v", name, buf.Len(), clipStr(fmt.Sprint(value), 80), rerr)
		return
	}
	if src.Len() != 1 {
		c.r.Violate(P, "notation-consumption", "notation-consumed-wrong-length:"+name, "%s: reading back consumed %d of the %d bytes written (value %s)", name, len(wire)-src.Len(), buf.Len(), clipStr(fmt.Sprint(value), 80))
		return
	}
	if !reflect.DeepEqual(normNotation(got), normNotation(value)) {
		c.r.Violate(P, "notation-roundtrip", "notation-value-differs:"+name, "%s: wrote %s, read back %s", name, clipStr(fmt.Sprint(value), 80), clipStr(fmt.Sprint(got), 80))
	}
}

// normNotation maps nil and empty slices/maps onto each other where the notation cannot tell them apart.
func normNotation(v interface{}) interface{} {
	switch x := v.(type) {
	case net.IP:
		return x.String() // 4-byte and 16-byte forms of one address are one value
	case *primitive.Inet:
		if x != nil {
			return fmt.Sprintf("%s:%d", x.Addr.String(), x.Port)
		}
	}
	rv := reflect.ValueOf(v)
	switch rv.Kind() {
	case reflect.Slice, reflect.Map:
		if rv.Len() == 0 {
			return reflect.Zero(rv.Type()).Interface()
		}
	}
	return v
}

func clipStr(s string, n int) string {
	if len(s) > n {
		return s[:n] + "..."
	}
	return s
}

func c03Notations(r *Run) {
	T := r.T
	c := &notationCheck{r: r}
	str := func(n int, utf bool) string {
		if !utf {
			return strings.Repeat("a", n)
		}
		return strings.Repeat("é", n/2) + strings.Repeat("x", n%2)
	}
	lens := append([]int{0, 1, 2}, edgeLens...)
	lens = append(lens, 511, 512, 513, 1023, 1024, 1025, 4095, 4096, 4097, 32767, 32768, 65534, 65535)
	// vints: every magnitude class
	for k := uint(0); k < 64; k++ {
		for _, d := range []int64{-1, 0, 1} {
			u := uint64(1)<<k + uint64(d)
			c.one("UnsignedVint", u, primitive.LengthOfUnsignedVint(u), nil,
				func(w io.Writer) error { _, err := primitive.WriteUnsignedVint(u, w); return err },
				func(rd io.Reader) (interface{}, error) { v, _, err := primitive.ReadUnsignedVint(rd); return v, err })
			for _, s := range []int64{int64(u), -int64(u)} {
				s := s
				c.one("Vint", s, primitive.LengthOfVint(s), nil,
					func(w io.Writer) error { _, err := primitive.WriteVint(s, w); return err },
					func(rd io.Reader) (interface{}, error) { v, _, err := primitive.ReadVint(rd); return v, err })
			}
		}
	}
	for i := 0; i < 64; i++ {
		u := uint64(T.Draw("vint.hi", 1<<30))<<34 ^ uint64(T.Draw("vint.lo", 1<<30))<<uint(T.Draw("vint.shift", 34))
		c.one("UnsignedVint", u, primitive.LengthOfUnsignedVint(u), nil,
			func(w io.Writer) error { _, err := primitive.WriteUnsignedVint(u, w); return err },
			func(rd io.Reader) (interface{}, error) { v, _, err := primitive.ReadUnsignedVint(rd); return v, err })
		s := int64(u)
		c.one("Vint", s, primitive.LengthOfVint(s), nil,
			func(w io.Writer) error { _, err := primitive.WriteVint(s, w); return err },
			func(rd io.Reader) (interface{}, error) { v, _, err := primitive.ReadVint(rd); return v, err })
	}
	// length-prefixed notations at every edge length
	for _, n := range lens {
		for _, utf := range []bool{false, true} {
			s := str(n, utf)
			c.one("String", s, primitive.LengthOfString(s), nil, func(w io.Writer) error { return primitive.WriteString(s, w) },
				func(rd io.Reader) (interface{}, error) { return primitive.ReadString(rd) })
			c.one("LongString", s, primitive.LengthOfLongString(s), nil, func(w io.Writer) error { return primitive.WriteLongString(s, w) },
				func(rd io.Reader) (interface{}, error) { return primitive.ReadLongString(rd) })
		}
		b := bytes.Repeat([]byte{byte(n)}, n)
		c.one("Bytes", b, primitive.LengthOfBytes(b), nil, func(w io.Writer) error { return primitive.WriteBytes(b, w) },
			func(rd io.Reader) (interface{}, error) { return primitive.ReadBytes(rd) })
		c.one("ShortBytes", b, primitive.LengthOfShortBytes(b), nil, func(w io.Writer) error { return primitive.WriteShortBytes(b, w) },
			func(rd io.Reader) (interface{}, error) { return primitive.ReadShortBytes(rd) })
		for _, v := range primitive.SupportedProtocolVersions() {
			v := v
			val := primitive.NewValue(b)
			l, lerr := primitive.LengthOfValue(val)
			c.one("Value", val, l, lerr, func(w io.Writer) error { return primitive.WriteValue(val, w, v) },
				func(rd io.Reader) (interface{}, error) { return primitive.ReadValue(rd, v) })
		}
	}
	for _, n := range []int{65536, 70000, 131072} {
		s := str(n, false)
		c.one("LongString", s, primitive.LengthOfLongString(s), nil, func(w io.Writer) error { return primitive.WriteLongString(s, w) },
			func(rd io.Reader) (interface{}, error) { return primitive.ReadLongString(rd) })
		b := bytes.Repeat([]byte{7}, n)
		c.one("Bytes", b, primitive.LengthOfBytes(b), nil, func(w io.Writer) error { return primitive.WriteBytes(b, w) },
			func(rd io.Reader) (interface{}, error) { return primitive.ReadBytes(rd) })
	}
	var nilBytes []byte
	c.one("Bytes", nilBytes, primitive.LengthOfBytes(nilBytes), nil, func(w io.Writer) error { return primitive.WriteBytes(nilBytes, w) }, nil)
	// collections with drawn shapes
	pick := func(site string) int { return lens[T.Draw(site, len(lens)-6)] } // keys and items below 4 KiB
	for rep := 0; rep < 24; rep++ {
		n := T.Draw("coll.n", 4)
		list := make([]string, n)
		smap := map[string]string{}
		mmap := map[string][]string{}
		bmap := map[string][]byte{}
		named := map[string]*primitive.Value{}
		var pos []*primitive.Value
		for i := 0; i < n; i++ {
			k := fmt.Sprintf("k%d", i) + str(pick("coll.key"), false)
			list[i] = str(pick("coll.item"), T.Bool("coll.utf", 0.3))
			smap[k] = list[i]
			mmap[k] = list[:i]
			bmap[k] = bytes.Repeat([]byte{1}, pick("coll.bytes"))
			var val *primitive.Value
			switch T.Draw("coll.valkind", 3) {
			case 0:
				val = primitive.NewValue(bmap[k])
			case 1:
				val = primitive.NewNullValue()
			default:
				val = primitive.NewUnsetValue()
			}
			named[k] = val
			pos = append(pos, val)
		}
		c.one("StringList", list, primitive.LengthOfStringList(list), nil, func(w io.Writer) error { return primitive.WriteStringList(list, w) },
			func(rd io.Reader) (interface{}, error) { return primitive.ReadStringList(rd) })
		c.one("StringMap", smap, primitive.LengthOfStringMap(smap), nil, func(w io.Writer) error { return primitive.WriteStringMap(smap, w) },
			func(rd io.Reader) (interface{}, error) { return primitive.ReadStringMap(rd) })
		c.one("StringMultiMap", mmap, primitive.LengthOfStringMultiMap(mmap), nil, func(w io.Writer) error { return primitive.WriteStringMultiMap(mmap, w) }, nil)
		c.one("BytesMap", bmap, primitive.LengthOfBytesMap(bmap), nil, func(w io.Writer) error { return primitive.WriteBytesMap(bmap, w) }, nil)
		hasUnset := false
		for _, val := range pos {
			hasUnset = hasUnset || val.Type == primitive.ValueTypeUnset
		}
		for _, v := range primitive.SupportedProtocolVersions() {
			v := v
			if hasUnset && v < primitive.ProtocolVersion4 {
				continue // "unset" exists from v4 on; LengthOf* takes no version and cannot say so
			}
			l, lerr := primitive.LengthOfPositionalValues(pos)
			c.one("PositionalValues", pos, l, lerr, func(w io.Writer) error { return primitive.WritePositionalValues(pos, w, v) }, nil)
			if v >= primitive.ProtocolVersion3 {
				l, lerr = primitive.LengthOfNamedValues(named)
				c.one("NamedValues", named, l, lerr, func(w io.Writer) error { return primitive.WriteNamedValues(named, w, v) }, nil)
			}
		}
	}
	// addresses
	for _, ip := range []net.IP{net.IPv4(10, 1, 2, 3).To4(), net.ParseIP("fe80::1:2"), net.IPv4(255, 255, 255, 255).To4(), net.ParseIP("::")} {
		ip := ip
		l, lerr := primitive.LengthOfInetAddr(ip)
		c.one("InetAddr", ip, l, lerr, func(w io.Writer) error { return primitive.WriteInetAddr(ip, w) },
			func(rd io.Reader) (interface{}, error) { return primitive.ReadInetAddr(rd) })
		for _, port := range []int32{0, 9042, 65535, 1 << 30} {
			inet := &primitive.Inet{Addr: ip, Port: port}
			l, lerr := primitive.LengthOfInet(inet)
			c.one("Inet", inet, l, lerr, func(w io.Writer) error { return primitive.WriteInet(inet, w) },
				func(rd io.Reader) (interface{}, error) { return primitive.ReadInet(rd) })
		}
		for n := 0; n < 3; n++ {
			var rm []*primitive.FailureReason
			for i := 0; i < n; i++ {
				rm = append(rm, &primitive.FailureReason{Endpoint: ip, Code: primitive.FailureCode(i)})
			}
			l, lerr := primitive.LengthOfReasonMap(rm)
			c.one("ReasonMap", rm, l, lerr, func(w io.Writer) error { return primitive.WriteReasonMap(rm, w) }, nil)
		}
	}
	// reason maps with endpoints of both address families, in both orders
	v4, v6 := net.IPv4(10, 0, 0, 1).To4(), net.ParseIP("fd00::1")
	for _, eps := range [][]net.IP{{v4, v6}, {v6, v4}, {v4, v6, v4}, {v6, v6, v4}, {v4, v4}} {
		var rm []*primitive.FailureReason
		for i, ep := range eps {
			rm = append(rm, &primitive.FailureReason{Endpoint: ep, Code: primitive.FailureCode(i)})
		}
		l, lerr := primitive.LengthOfReasonMap(rm)
		c.one("ReasonMap", rm, l, lerr, func(w io.Writer) error { return primitive.WriteReasonMap(rm, w) }, nil)
	}
	r.Evals = c.count
	r.Probes["notation_triples_checked"] += c.count
	r.Nontrivial = true
}
