package sim

import (
	"bytes"
	"context"
	"fmt"
	"io"
	"math/bits"
	"strings"
	"sync"
	"time"

	"github.com/datastax/go-cassandra-native-protocol/client"
	"github.com/datastax/go-cassandra-native-protocol/compression/lz4"
	"github.com/datastax/go-cassandra-native-protocol/crc"
	"github.com/datastax/go-cassandra-native-protocol/frame"
	"github.com/datastax/go-cassandra-native-protocol/primitive"
	"github.com/datastax/go-cassandra-native-protocol/segment"
)

// C07 — corrupted segments are rejected, never delivered (DESIGN.md §5 C07).
//
// Two families:
//   - "direct": a segment encoded by the real codec is altered in transit by a bit pattern inside the
//     checksums' guaranteed detection range and handed to the real DecodeSegment. The fault space is
//     enumerated (all weights 1..k of header+CRC-24 bits; single flips, pairs and bursts over
//     payload+CRC-32), not sampled, wherever the evidence says "exhaustive".
//   - "live": a v5 connection between the real client and the real server carries tagged requests and
//     responses over the simulated network while the link flips bits of one segment; no frame of the
//     corrupted segment (nor anything after it) may be delivered and the receiving side must close.

func init() {
	Register(&Scenario{Name: "direct", Property: "C07", Body: c07Direct})
	Register(&Scenario{Name: "live", Property: "C07", Body: c07Live})
	props["C07"] = &propDef{Case: c07Case, Extra: c07Enumerate}
}

// ---------- direct ----------

type c07Seg struct {
	lz4     bool
	wire    []byte // encoded segment
	hdrBits int    // 48 or 64
	payload []byte
	self    bool
}

func c07Codec(lz4On bool) segment.Codec {
	if lz4On {
		return segment.NewCodecWithCompression(lz4.Compressor{})
	}
	return segment.NewCodec()
}

// c07Payload builds a payload of the given class deterministically from a seed.
func c07Payload(kind, n int, seed uint64) []byte {
	p := make([]byte, n)
	switch kind {
	case 0: // zeros
	case 1: // repetitive text
		for i := range p {
			p[i] = "cassandra"[i%9]
		}
	default: // pseudo-random
		s := seed | 1
		for i := range p {
			p[i] = byte(splitmix(&s))
		}
	}
	return p
}

func c07Encode(lz4On bool, payload []byte, self bool) (*c07Seg, error) {
	var buf bytes.Buffer
	seg := &segment.Segment{Header: &segment.Header{IsSelfContained: self}, Payload: &segment.Payload{UncompressedData: append([]byte(nil), payload...)}}
	if err := c07Codec(lz4On).EncodeSegment(seg, &buf); err != nil {
		return nil, err
	}
	s := &c07Seg{lz4: lz4On, wire: buf.Bytes(), hdrBits: 48, payload: payload, self: self}
	if lz4On {
		s.hdrBits = 64
	}
	return s, nil
}

// c07Accepts reports whether the (altered) bytes are accepted as a valid segment. The altered bytes are
// presented TWICE in a row to the same codec instance (a corrupted segment may well be retransmitted or
// re-read): a decoder that remembers anything from a rejected attempt must still reject the second one.
func c07Accepts(codec segment.Codec, wire []byte) (accepted bool, detail string) {
	if ok, d := c07AcceptsOnce(codec, wire); ok {
		return true, d
	}
	if ok, d := c07AcceptsOnce(codec, wire); ok {
		return true, "on the second presentation of the same altered bytes to the same codec instance: " + d
	}
	return false, ""
}

func c07AcceptsOnce(codec segment.Codec, wire []byte) (accepted bool, detail string) {
	seg, err := codec.DecodeSegment(bytes.NewReader(wire))
	if err == nil {
		n := -1
		if seg != nil && seg.Payload != nil {
			n = len(seg.Payload.UncompressedData)
		}
		return true, fmt.Sprintf("DecodeSegment returned no error (payload of %d bytes)", n)
	}
	if seg != nil {
		return true, "DecodeSegment returned an error AND a segment"
	}
	return false, ""
}

var payloadSizes = []int{0, 1, 16, 300, 4096, 131071}

func c07SegFromParams(p map[string]int) (*c07Seg, error) {
	size := payloadSizes[p["size_class"]%len(payloadSizes)]
	if sz, ok := p["size"]; ok {
		size = sz
	}
	return c07Encode(p["lz4"] == 1, c07Payload(p["kind"], size, uint64(p["pseed"])), p["self"] == 1)
}

// c07Direct checks ONE alteration, fully described by Params (this is what replay files of the
// direct family re-execute). region 0: XOR mask over the header+CRC24 bits; region 1: up to two
// single-bit flips or one burst over payload+CRC32.
func c07Direct(r *Run) {
	// the decoder runs in a task of its own: a checksum or decompression step that hands work to a
	// goroutine must be schedulable
	r.Go("direct", func() { c07DirectBody(r) })
	if !r.Drive() {
		r.Violate("C07", "liveness", "step-budget", "decoding one altered segment did not finish")
	}
}

func c07DirectBody(r *Run) {
	const P = "C07"
	p := r.Spec.Params
	seg, err := c07SegFromParams(p)
	if err != nil {
		r.Violate(P, "control", "encode-failed", "encoding the control segment failed: %v", err)
		return
	}
	codec := c07Codec(seg.lz4)
	// the unaltered segment first (control); its delivered payload is kept, as an application would keep it
	// while the connection goes on: what is refused later must not show up in it
	control, cerr := codec.DecodeSegment(bytes.NewReader(seg.wire))
	if cerr != nil || control == nil || control.Payload == nil {
		r.Violate(P, "control", "control-rejected", "the unaltered segment is rejected: %v", cerr)
		return
	}
	delivered := control.Payload.UncompressedData
	alt := append([]byte(nil), seg.wire...)
	hdrBytes := seg.hdrBits / 8
	desc := ""
	switch p["region"] {
	case 0:
		mask := uint64(p["mask"])
		for i := 0; i < hdrBytes; i++ {
			alt[i] ^= byte(mask >> (8 * uint(i)))
		}
		desc = fmt.Sprintf("header+CRC24 XOR mask %0*x (weight %d)", hdrBytes*2, mask, bits.OnesCount64(mask))
	case 1:
		body := alt[hdrBytes:]
		if p["burst_len"] > 0 {
			off, m := p["burst_off"], uint64(uint32(p["burst_mask"]))
			for k := 0; k < 32; k++ {
				if m>>uint(k)&1 == 1 {
					b := off + k
					body[b/8] ^= 1 << uint(b%8)
				}
			}
			desc = fmt.Sprintf("burst at payload bit %d, pattern %08x", off, m)
		} else {
			for _, key := range []string{"bit1", "bit2"} {
				if b, ok := p[key]; ok && b >= 0 {
					body[b/8] ^= 1 << uint(b%8)
				}
			}
			desc = fmt.Sprintf("payload bit flips at %d and %d", p["bit1"], p["bit2"])
		}
	}
	r.Evals = 1
	r.Nontrivial = true
	if bytes.Equal(alt, seg.wire) {
		return // empty alteration
	}
	if ok, detail := c07Accepts(codec, alt); ok {
		r.Violate(P, "rejected", c07Class(p), "segment (lz4=%v, %d payload bytes, self-contained=%v) altered by %s was accepted: %s", seg.lz4, len(seg.payload), seg.self, desc, detail)
	} else if !bytes.Equal(delivered, seg.payload) {
		r.Violate(P, "rejected", fmt.Sprintf("refused-bytes-in-earlier-payload:lz4=%d", p["lz4"]), "the altered segment (%s) was refused, but the payload delivered for the intact segment decoded just before it on the same codec (%d bytes) no longer equals what was sent: refused bytes reached a delivered payload", desc, len(seg.payload))
	}
}

func c07Class(p map[string]int) string {
	if p["region"] == 0 {
		return fmt.Sprintf("header-accepted:lz4=%d", p["lz4"])
	}
	if p["burst_len"] > 0 {
		return fmt.Sprintf("payload-burst-accepted:lz4=%d", p["lz4"])
	}
	return fmt.Sprintf("payload-flips-accepted:lz4=%d", p["lz4"])
}

// c07Case: one drawn direct alteration (so that the direct family is also sampled through the
// normal run path, with replay), and one live session with its corrupted twin.
func c07Case(w *Worker, i int) {
	ps := Mix(w.Job.Seed, "C07/params", i)
	next := func(n int) int { return int(splitmix(&ps) % uint64(n)) }
	// live: baseline, then the same session with one segment corrupted
	base := RunSpec{Scenario: "live", Index: i}
	res := w.Exec(base)
	for dir, key := range []string{"c2s", "s2c"} {
		starts, hl, wl := res.Aux[key+"_seg_start"], res.Aux[key+"_seg_hdrlen"], res.Aux[key+"_seg_wirelen"]
		if len(starts) == 0 {
			continue
		}
		k := next(len(starts))
		spec := base
		spec.Params = map[string]int{"dir": dir, "seg": k}
		hdrBits := int(hl[k]+3) * 8
		bodyBits := int(wl[k]+4) * 8
		switch next(3) {
		case 0: // 1..7 header bits
			n := 1 + next(7)
			spec.Params["nbits"] = n
			seen := map[int]bool{}
			for j := 0; j < n; j++ {
				b := next(hdrBits)
				for seen[b] {
					b = next(hdrBits)
				}
				seen[b] = true
				spec.Params[fmt.Sprintf("bit%d", j)] = int(starts[k])*8 + b
			}
		case 1: // one or two payload/CRC32 bits
			n := 1 + next(2)
			spec.Params["nbits"] = n
			b0 := next(bodyBits)
			spec.Params["bit0"] = (int(starts[k])+int(hl[k])+3)*8 + b0
			if n == 2 {
				b1 := next(bodyBits)
				for b1 == b0 {
					b1 = next(bodyBits)
				}
				spec.Params["bit1"] = (int(starts[k])+int(hl[k])+3)*8 + b1
			}
		case 2: // burst of up to 32 bits
			l := 1 + next(32)
			if l > bodyBits {
				l = bodyBits
			}
			off := next(bodyBits - l + 1)
			n := 0
			for j := 0; j < l; j++ {
				if j == 0 || j == l-1 || next(2) == 1 {
					spec.Params[fmt.Sprintf("bit%d", n)] = (int(starts[k])+int(hl[k])+3)*8 + off + j
					n++
				}
			}
			spec.Params["nbits"] = n
		}
		w.Exec(spec)
	}
}

// enumMasks calls f with every n-bit mask of the given weight (lexicographic combinations).
func enumMasks(n, weight int, f func(mask uint64)) {
	if weight <= 0 || weight > n {
		return
	}
	idx := make([]int, weight)
	for i := range idx {
		idx[i] = i
	}
	for {
		var m uint64
		for _, b := range idx {
			m |= 1 << uint(b)
		}
		f(m)
		// advance
		i := weight - 1
		for i >= 0 && idx[i] == n-weight+i {
			i--
		}
		if i < 0 {
			return
		}
		idx[i]++
		for j := i + 1; j < weight; j++ {
			idx[j] = idx[j-1] + 1
		}
	}
}

// c07Enumerate is the enumerated part of the direct family, sharded over the workers: every worker
// walks the whole pattern space and evaluates the patterns whose ordinal falls into its shard.
func c07Enumerate(w *Worker) {
	if w.Job.NShards <= 0 {
		return
	}
	thorough := w.Job.Tier == "thorough"
	maxExhaustive := 4
	if thorough {
		maxExhaustive = 7
	}
	headerValues := 1
	if thorough {
		headerValues = 3
	}
	shard, nsh := uint64(w.Job.Shard), uint64(w.Job.NShards)
	ps := Mix(w.Job.Seed, "C07/enum", w.Job.Shard)
	next := func(n int) int { return int(splitmix(&ps) % uint64(n)) }
	report := func(p map[string]int) {
		w.Exec(RunSpec{Scenario: "direct", Index: 0, Params: p})
	}
	count := func(key string, n int) { w.Out.Counters[key] += n }
	// large payloads first: one syndrome scan per shard and size (see c07scan.go)
	for k, size := range c07ScanSizes(w) {
		if w.expired() {
			return
		}
		c07PayloadScan(w, (w.Job.Shard+k)&1, size, 2, int(Mix(w.Job.Seed, "C07/scanpayload", size)>>1))
	}
	for _, lz4On := range []int{0, 1} {
		for hv := 0; hv < headerValues; hv++ {
			if w.expired() {
				return
			}
			base := map[string]int{"lz4": lz4On, "size_class": []int{2, 3, 1}[hv], "kind": []int{2, 1, 0}[hv], "pseed": int(Mix(w.Job.Seed, "C07/hv", hv) >> 1), "self": hv & 1, "region": 0}
			seg, err := c07SegFromParams(base)
			if err != nil {
				w.Out.Errors = append(w.Out.Errors, "C07 control encode failed: "+err.Error())
				return
			}
			codec := c07Codec(seg.lz4)
			if ok, _ := c07Accepts(codec, seg.wire); !ok {
				report(base) // control violation is re-derived by the direct scenario
				continue
			}
			hdrBytes := seg.hdrBits / 8
			alt := append([]byte(nil), seg.wire...)
			var ordinal uint64
			eval := func(mask uint64) {
				for i := 0; i < hdrBytes; i++ {
					alt[i] = seg.wire[i] ^ byte(mask>>(8*uint(i)))
				}
				w.Out.Counters["direct_header_evaluations"]++
				if ok, _ := c07Accepts(codec, alt); ok {
					p := map[string]int{}
					for k, v := range base {
						p[k] = v
					}
					p["mask"] = int(mask)
					report(p)
				}
			}
			check := func(mask uint64) {
				ordinal++
				if ordinal%nsh == shard {
					w.Out.Counters["direct_enumerated_distinct"]++
					eval(mask)
				}
			}
			for wgt := 1; wgt <= maxExhaustive; wgt++ {
				before := ordinal
				enumMasks(seg.hdrBits, wgt, check)
				if shard == 0 {
					count(fmt.Sprintf("header%dbits_weight%d_patterns_in_space_hv%d", seg.hdrBits, wgt, hv), int(ordinal-before))
				}
				w.Out.Exhaustive[fmt.Sprintf("header_%dbits_weight_%d", seg.hdrBits, wgt)] = fmt.Sprintf("all patterns, for %d seeded header value(s)", headerValues)
			}
			// sampled higher weights (quick tier only; thorough enumerates up to weight 7)
			for wgt := maxExhaustive + 1; wgt <= 7; wgt++ {
				for s := 0; s < 20000; s++ {
					var mask uint64
					for bits.OnesCount64(mask) < wgt {
						mask |= 1 << uint(next(seg.hdrBits))
					}
					eval(mask)
				}
				count(fmt.Sprintf("header%dbits_weight%d_patterns_sampled", seg.hdrBits, wgt), 20000)
			}
		}
		// syndrome scan: for many header values taken from real encodings, EVERY alteration of weight <= 7
		// over header+CRC-24 is examined through the library's own checksum function: an alteration
		// (data bits m, CRC bits s) is accepted by the header stage iff crc(h^m) ^ crc(h) == s, so it
		// suffices to enumerate m of weight w and test whether the syndrome has weight <= 7-w. This does
		// not rely on the checksum being linear (a table-driven implementation with one wrong entry is
		// not), which the "one header value, by linearity" enumeration above does. Candidates are then
		// put through the real DecodeSegment.
		{
			nH := 24
			maxWd := 6
			if thorough {
				nH, maxWd = 200, 7
			}
			hl := 3
			if lz4On == 1 {
				hl = 5
			}
			for i := 0; i < nH && !w.expired(); i++ {
				base := map[string]int{"lz4": lz4On, "size": 1 + next(6000), "kind": 1 + next(2), "pseed": next(1 << 30), "self": next(2), "region": 0}
				seg, err := c07SegFromParams(base)
				if err != nil {
					continue
				}
				codec := c07Codec(seg.lz4)
				var h uint64
				for k := 0; k < hl; k++ {
					h |= uint64(seg.wire[k]) << (8 * uint(k))
				}
				ref := crc.ChecksumKoopman(h, hl)
				alt := append([]byte(nil), seg.wire...)
				for wd := 1; wd <= maxWd; wd++ {
					enumMasks(hl*8, wd, func(m uint64) {
						syn := crc.ChecksumKoopman(h^m, hl) ^ ref
						w.Out.Counters["syndrome_scan_alterations_covered"]++
						if bits.OnesCount32(syn) > 7-wd {
							return
						}
						// the header stage accepts this alteration of weight <= 7: does the decoder?
						mask := m | uint64(syn)<<(8*uint(hl))
						for k := 0; k < hl+3; k++ {
							alt[k] = seg.wire[k] ^ byte(mask>>(8*uint(k)))
						}
						w.Out.Counters["syndrome_scan_header_stage_accepts"]++
						if ok, _ := c07Accepts(codec, alt); ok {
							p := map[string]int{}
							for k, v := range base {
								p[k] = v
							}
							p["mask"] = int(mask)
							report(p)
						}
					})
				}
				w.Out.Counters["syndrome_scan_header_values"]++
			}
			w.Out.Exhaustive[fmt.Sprintf("syndrome_scan_%dbit_headers", hl*8+24)] = fmt.Sprintf("every alteration with up to %d data-bit flips plus CRC-bit flips of total weight <= 7, for %d header values per worker taken from real encodings", maxWd, nH)
		}
		// payload + CRC32
		for sc, size := range payloadSizes {
			if w.expired() {
				return
			}
			for _, kind := range []int{0, 2} {
				base := map[string]int{"lz4": lz4On, "size_class": sc, "kind": kind, "pseed": 12345 + sc, "self": 1, "region": 1}
				seg, err := c07SegFromParams(base)
				if err != nil {
					continue
				}
				codec := c07Codec(seg.lz4)
				hdrBytes := seg.hdrBits / 8
				bodyBits := (len(seg.wire) - hdrBytes) * 8
				alt := append([]byte(nil), seg.wire...)
				body := alt[hdrBytes:]
				orig := seg.wire[hdrBytes:]
				// the payload delivered for the intact segment is kept while altered ones are refused
				var delivered []byte
				if control, err := codec.DecodeSegment(bytes.NewReader(seg.wire)); err == nil && control != nil && control.Payload != nil {
					delivered = control.Payload.UncompressedData
				}
				evalFlips := func(p map[string]int, flips ...int) {
					for _, b := range flips {
						body[b/8] ^= 1 << uint(b%8)
					}
					ok, _ := c07Accepts(codec, alt)
					for _, b := range flips {
						body[b/8] = orig[b/8]
					}
					if !ok && delivered != nil && !bytes.Equal(delivered, seg.payload) {
						ok = true // re-derived (and classified) by the direct scenario
						delivered = nil
					}
					if ok {
						q := map[string]int{}
						for k, v := range base {
							q[k] = v
						}
						for k, v := range p {
							q[k] = v
						}
						report(q)
					}
					w.Out.Counters["direct_payload_evaluations"]++
				}
				// trailers that a lenient comparison might take for the right one: any change confined to the
				// four trailer bytes is one burst of at most 32 bits, hence inside the guaranteed range
				if shard == uint64(sc)%nsh {
					tOff := len(body) - 4
					t := uint32(orig[tOff]) | uint32(orig[tOff+1])<<8 | uint32(orig[tOff+2])<<16 | uint32(orig[tOff+3])<<24
					plain := RCrc32Plain(orig[:tOff])
					for ai, a := range []uint32{bits.ReverseBytes32(t), bits.Reverse32(t), ^t, 0, 0xffffffff, plain, bits.ReverseBytes32(plain), ^plain, t ^ 0xffffffff>>1, bits.RotateLeft32(t, 8), bits.RotateLeft32(t, 16), bits.RotateLeft32(t, 24)} {
						if m := a ^ t; m != 0 {
							var flips []int
							lo, hi := 32, -1
							for k := 0; k < 32; k++ {
								if m>>uint(k)&1 == 1 {
									flips = append(flips, tOff*8+k)
									if k < lo {
										lo = k
									}
									hi = k
								}
							}
							evalFlips(map[string]int{"burst_len": hi - lo + 1, "burst_off": tOff*8 + lo, "burst_mask": int(m >> uint(lo))}, flips...)
							w.Out.Counters["direct_alternative_trailers"]++
							_ = ai
						}
					}
				}
				// single flips: all positions (sharded) for sizes up to 4 KiB, sampled for the largest
				step := 1
				if size > 4096 {
					step = 257
					if thorough {
						step = 17
					}
				}
				for b := int(shard) * step; b < bodyBits; b += int(nsh) * step {
					evalFlips(map[string]int{"bit1": b, "bit2": -1}, b)
					if step == 1 {
						w.Out.Counters["direct_enumerated_distinct"]++
					}
				}
				if step == 1 {
					w.Out.Exhaustive[fmt.Sprintf("payload_single_flips_lz4=%d_size=%d_kind=%d", lz4On, size, kind)] = fmt.Sprintf("all %d bit positions of payload+CRC32", bodyBits)
				}
				// pairs: all pairs for tiny payloads, sampled otherwise
				if bodyBits <= 8*20 {
					var ord uint64
					for b1 := 0; b1 < bodyBits; b1++ {
						for b2 := b1 + 1; b2 < bodyBits; b2++ {
							ord++
							if ord%nsh == shard {
								evalFlips(map[string]int{"bit1": b1, "bit2": b2}, b1, b2)
							}
						}
					}
					w.Out.Exhaustive[fmt.Sprintf("payload_pairs_lz4=%d_size=%d_kind=%d", lz4On, size, kind)] = fmt.Sprintf("all pairs of %d bits", bodyBits)
				} else {
					pairs := 2000
					if thorough {
						pairs = 30000
					}
					if size > 4096 {
						pairs /= 10
					}
					for s := 0; s < pairs; s++ {
						b1, b2 := next(bodyBits), next(bodyBits)
						if b1 != b2 {
							evalFlips(map[string]int{"bit1": b1, "bit2": b2}, b1, b2)
						}
					}
				}
				// bursts: every start offset (sharded; stepped for the largest), random length and contents
				reps := 1
				if thorough {
					reps = 4
				}
				for b := int(shard) * step; b < bodyBits; b += int(nsh) * step {
					for rep := 0; rep < reps; rep++ {
						l := 1 + next(32)
						if b+l > bodyBits {
							l = bodyBits - b
						}
						var m uint32 = 1 | 1<<uint(l-1)
						m |= uint32(splitmix(&ps)) & (1<<uint(l) - 1)
						var flips []int
						for k := 0; k < l; k++ {
							if m>>uint(k)&1 == 1 {
								flips = append(flips, b+k)
							}
						}
						evalFlips(map[string]int{"burst_len": l, "burst_off": b, "burst_mask": int(m)}, flips...)
					}
				}
			}
		}
	}
}

// ---------- live ----------

func c07Live(r *Run) {
	const P = "C07"
	// a corrupted segment makes the receiver abort: panics of the Close protocol racing with senders
	// are C16's business (one is a known finding there) and are not judged under C07
	r.PanicProperty = ""
	T := r.T
	v := primitive.ProtocolVersion5
	comp := []primitive.Compression{primitive.CompressionNone, primitive.CompressionLz4}[T.Draw("compression", 2)]
	K := 1 + T.Draw("senders", 3)
	M := 1 + T.Draw("requests", 3)
	big := T.Bool("big", 0.3)
	opts := LinkOpts{
		Capacity:   []int{1 << 20, 256, 4096}[T.DrawP("capacity", 3, 0.6)],
		Latency:    ms([]int{0, 1, 20}[T.Draw("latency", 3)]),
		ChunkReads: T.Bool("chunkReads", 0.5),
	}
	r.Config["compression"] = string(comp)
	r.Config["senders"] = fmt.Sprint(K)
	r.Config["requests"] = fmt.Sprint(M)
	// corruption plan (absolute bit offsets in one direction of the link)
	var flipBits []int64
	dir := -1
	if nb, ok := r.Spec.Params["nbits"]; ok && nb > 0 {
		dir = r.Spec.Params["dir"]
		for j := 0; j < nb; j++ {
			flipBits = append(flipBits, int64(r.Spec.Params[fmt.Sprintf("bit%d", j)]))
		}
		r.Config["corrupt"] = fmt.Sprintf("dir=%d segment=%d bits=%v", dir, r.Spec.Params["seg"], flipBits)
	}
	ctx, cancel := context.WithCancel(context.Background())
	a, b := r.Net.Pair("L", r.Net.NewClientAddr(), mustAddr("10.0.0.2:9042"), opts)
	flipper := func(bitsAbs []int64) func(off int64, data []byte) []byte {
		fired := false
		return func(off int64, data []byte) []byte {
			for _, ab := range bitsAbs {
				byteOff := ab / 8
				if byteOff >= off && byteOff < off+int64(len(data)) {
					data[byteOff-off] ^= 1 << uint(ab%8)
					if !fired {
						fired = true
						r.Faults["segment_bits_flipped_runs"]++
					}
					r.Faults["bit_flips"]++
				}
			}
			return data
		}
	}
	if dir == 0 {
		a.MutateOutgoing(flipper(flipBits))
	} else if dir == 1 {
		b.MutateOutgoing(flipper(flipBits))
	}

	var serverGot, clientGot []string // tags delivered to the receiving application, in order
	var cc *client.CqlClientConnection
	var sc *client.CqlServerConnection
	mainDone := false
	r.Go("main", func() {
		defer func() { mainDone = true }()
		var err error
		cc, err = client.VerifNewClientConnection(a, ctx, nil, comp, 16, 4, 5*time.Second, nil)
		if err != nil {
			return
		}
		sc, err = client.VerifNewServerConnection(b, ctx, nil, 64, time.Hour, nil, nil, func(*client.CqlServerConnection) {})
		if err != nil {
			return
		}
		r.Cleanup(func() { _ = cc.Close(); _ = sc.Close(); cancel() })
		hs := make(doneChan)
		r.Go("hsServer", func() { defer close(hs); _ = sc.AcceptHandshake(); r.Yield("hs.s") })
		err = cc.InitiateHandshake(v, client.ManagedStreamId)
		r.Yield("hs.c")
		<-hs
		r.Yield("hs.joined")
		if err != nil {
			if dir < 0 {
				r.Violate(P, "control", "handshake-failed", "fault-free v5 handshake failed: %v", err)
			}
			return
		}
		var wg sync.WaitGroup
		wg.Add(1)
		r.Go("responder", func() {
			defer wg.Done()
			for {
				f, err := sc.Receive()
				r.Yield("resp.recv")
				if err != nil || f == nil {
					return
				}
				tag := queryTag(f)
				serverGot = append(serverGot, tag)
				if idx := strings.IndexByte(tag, '|'); idx >= 0 {
					tag = tag[:idx]
				}
				_ = sc.Send(pageFrame(v, f.Header.StreamId, tag, 0, 1))
				r.Yield("resp.sent")
			}
		})
		var swg sync.WaitGroup
		for i := 0; i < K; i++ {
			i := i
			swg.Add(1)
			r.Go(fmt.Sprintf("sender%d", i), func() {
				defer swg.Done()
				for j := 0; j < M; j++ {
					tag := fmt.Sprintf("q%d.%d", i, j)
					q := tag
					if big {
						q = tag + "|" + strings.Repeat("x", 200+37*j)
					}
					req, err := cc.Send(queryFrame(v, client.ManagedStreamId, q))
					r.Yield("sender.sent")
					if err != nil || req == nil {
						return
					}
					fr, err := cc.Receive(req)
					r.Yield("sender.recv")
					if err != nil || fr == nil {
						return
					}
					clientGot = append(clientGot, pageTag(fr))
				}
			})
		}
		swg.Wait()
		r.Yield("senders.joined")
		if dir < 0 {
			_ = cc.Close()
			r.Yield("closed.c")
			_ = sc.Close()
			r.Yield("closed.s")
		}
		wg.Wait()
		r.Yield("responder.joined")
	})
	if !r.Drive() {
		r.Violate(P, "liveness", "step-budget", "run did not quiesce")
		return
	}
	lz4On := comp == primitive.CompressionLz4
	// parse both taps: one legacy frame, then segments
	type parsed struct {
		segs   []RSegment
		base   int
		tags     [][]string // tags of the frames inside each segment
		unparsed int
	}
	parse := func(tap *Tap, response bool) (*parsed, error) {
		frames, _, err := RSplitFrames(tap.Sent[:minInt(len(tap.Sent), 9+4096)])
		if len(frames) == 0 {
			return nil, fmt.Errorf("no legacy handshake frame on the wire (%v)", err)
		}
		p := &parsed{base: frames[0].End}
		segs, _, err := RSplitSegments(tap.Sent[p.base:], lz4On)
		if err != nil {
			return p, err
		}
		p.segs = segs
		for _, s := range segs {
			var tags []string
			fr, _, _ := RSplitFrames(s.Payload)
			for _, f := range fr {
				if f.H.Flags&RFlagCompressed != 0 {
					// not allowed inside v5 segments (that is C15's business); still needed for tags
					if raw, e := RLz4BodyDecompress(f.Body); e == nil {
						f.Body = raw
					}
				}
				switch f.H.Opcode {
				case ROpQuery:
					q, _ := RParseQuery(f.Body)
					tags = append(tags, q)
				case ROpResult:
					cell, _, _, e := RParseRowsSingleCell(f.Body)
					if e == nil {
						tags = append(tags, string(cell))
					} else {
						tags = append(tags, "unparsed-result")
						p.unparsed++
					}
				default:
					tags = append(tags, fmt.Sprintf("op%02x", f.H.Opcode))
				}
			}
			p.tags = append(p.tags, tags)
		}
		return p, nil
	}
	if cc == nil || sc == nil {
		return
	}
	c2s, err1 := parse(a.Tap(), false)
	s2c, err2 := parse(b.Tap(), true)
	if dir < 0 {
		// baseline: publish the segment layout so that the case function can aim its flips
		if err1 != nil || err2 != nil {
			r.Violate(P, "control", "wire-unparsable", "fault-free v5 traffic does not parse as handshake frame + segments: c2s=%v s2c=%v", err1, err2)
			return
		}
		if !mainDone {
			r.Violate(P, "control", "baseline-stuck", "fault-free session did not finish")
			return
		}
		r.Aux = map[string][]int64{}
		for key, p := range map[string]*parsed{"c2s": c2s, "s2c": s2c} {
			for _, s := range p.segs {
				hl := 3
				if lz4On {
					hl = 5
				}
				r.Aux[key+"_seg_start"] = append(r.Aux[key+"_seg_start"], int64(p.base+s.Start))
				r.Aux[key+"_seg_hdrlen"] = append(r.Aux[key+"_seg_hdrlen"], int64(hl))
				r.Aux[key+"_seg_wirelen"] = append(r.Aux[key+"_seg_wirelen"], int64(len(s.Wire)))
			}
		}
		if len(serverGot) != K*M || len(clientGot) != K*M {
			r.Violate(P, "control", "baseline-incomplete", "fault-free session delivered %d/%d requests and %d/%d responses", len(serverGot), K*M, len(clientGot), K*M)
		}
		r.Nontrivial = len(c2s.segs) > 1
		return
	}
	// corrupted run: the Sent tap holds what the sender wrote (intact), so the expected tags per
	// segment are known; everything from the corrupted segment on must not be delivered.
	k := r.Spec.Params["seg"]
	p, got, recvClosed := c2s, serverGot, sc.IsClosed()
	side := "server"
	if dir == 1 {
		p, got, recvClosed = s2c, clientGot, cc.IsClosed()
		side = "client"
	}
	if p == nil || k >= len(p.segs) {
		r.Probe("corrupt_target_not_reached")
		return
	}
	if r.Faults["bit_flips"] == 0 {
		r.Probe("corrupt_target_not_reached")
		return
	}
	if p.unparsed > 0 {
		r.Probe("tap_frames_unparsed") // cannot attribute deliveries: judge nothing
		return
	}
	r.Nontrivial = true
	allowed := map[string]bool{}
	for i := 0; i < k; i++ {
		for _, t := range p.tags[i] {
			allowed[t] = true
		}
	}
	for _, g := range got {
		key := g
		if dir == 1 {
			key = g // response cells are "<tag>#0"
		}
		if !allowed[key] {
			cls := "delivered-after-corruption"
			for _, t := range p.tags[k] {
				if t == key {
					cls = "corrupted-segment-delivered"
				}
			}
			r.Violate(P, "live-rejected", cls+":"+side, "the %s application received %q although segment %d (%v) of that direction was corrupted in transit (flipped absolute bits %v); delivered=%v", side, g, k, p.tags[k], flipBits, got)
			break
		}
	}
	if !recvClosed {
		r.Violate(P, "live-abort", "not-closed:"+side, "the %s connection is still open at quiescence although segment %d of its incoming direction was corrupted", side, k)
	}
	if r.Spec.Trace {
		r.Sample = map[string]interface{}{"corrupt": r.Config["corrupt"], "delivered_to_" + side: got, "segments_sent": p.tags}
	}
}

func minInt(a, b int) int {
	if a < b {
		return a
	}
	return b
}

var _ = frame.NewFrame

// ---------- shared: a segment codec shared by two tasks (C18 says it may be), chunked arrival ----------
//
// Task A decodes an ALTERED segment whose bytes arrive in pieces (the reader is a scheduling point
// between pieces), task B decodes intact segments on the same codec instance in the meantime. A must
// still reject: nothing another user of the codec does may turn a corrupted segment into an accepted one.

func init() {
	Register(&Scenario{Name: "shared", Property: "C07", Body: c07Shared})
	pd := props["C07"]
	prev := pd.Case
	pd.Case = func(w *Worker, i int) {
		prev(w, i)
		w.Exec(RunSpec{Scenario: "shared", Index: i})
	}
}

// yieldingReader hands out its bytes in drawn pieces and is a scheduling point before every piece.
type yieldingReader struct {
	r    *Run
	data []byte
	off  int
	cuts []int
}

func (y *yieldingReader) Read(p []byte) (int, error) {
	y.r.Yield("c07.shared.read")
	if y.off >= len(y.data) {
		return 0, io.EOF
	}
	n := len(p)
	if n > len(y.data)-y.off {
		n = len(y.data) - y.off
	}
	for _, c := range y.cuts {
		if c > y.off && c < y.off+n {
			n = c - y.off
			break
		}
	}
	copy(p, y.data[y.off:y.off+n])
	y.off += n
	return n, nil
}

func c07Shared(r *Run) {
	const P = "C07"
	T := r.T
	lz4On := T.Bool("lz4", 0.5)
	codec := c07Codec(lz4On)
	mk := func(site string) *c07Seg {
		seg, err := c07Encode(lz4On, c07Payload(1+T.Draw(site+".kind", 2), 1+T.Draw(site+".size", 300), uint64(T.Draw(site+".seed", 1000))), T.Bool(site+".self", 0.5))
		if err != nil {
			return nil
		}
		return seg
	}
	victim := mk("victim")
	if victim == nil {
		return
	}
	hdrBytes := victim.hdrBits / 8
	// alteration inside the guaranteed range: 1..7 header+CRC24 bits, or 1-2 payload bits
	alt := append([]byte(nil), victim.wire...)
	desc := ""
	if T.Bool("region.header", 0.7) {
		n := 1 + T.Draw("nflips", 7)
		seen := map[int]bool{}
		for k := 0; k < n; k++ {
			b := T.Draw("bit", victim.hdrBits)
			for seen[b] { // next free bit: a replayed (zeroed) tape must not loop forever
				b = (b + 1) % victim.hdrBits
			}
			seen[b] = true
			alt[b/8] ^= 1 << uint(b%8)
		}
		desc = fmt.Sprintf("%d header/CRC24 bit flips", n)
	} else {
		bodyBits := (len(alt) - hdrBytes) * 8
		b1 := T.Draw("pbit1", bodyBits)
		alt[hdrBytes+b1/8] ^= 1 << uint(b1%8)
		desc = fmt.Sprintf("payload bit flip at %d", b1)
	}
	if bytes.Equal(alt, victim.wire) {
		return
	}
	r.Config["lz4"] = fmt.Sprint(lz4On)
	r.Config["alteration"] = desc
	// the intact traffic of the other user: same header prefix as the victim (the interesting case) or not
	var others []*c07Seg
	nOthers := 1 + T.Draw("others", 3)
	for i := 0; i < nOthers; i++ {
		if T.Bool("same", 0.6) {
			others = append(others, victim)
		} else if s := mk(fmt.Sprintf("other%d", i)); s != nil {
			others = append(others, s)
		}
	}
	var cuts []int
	for i := 0; i < 1+T.Draw("ncuts", 4); i++ {
		cuts = append(cuts, 1+T.Draw("cut", hdrBytes+2))
	}
	accepted, detail := false, ""
	aDone, bDone := false, false
	bErrs := 0
	r.Go("victim", func() {
		defer func() { aDone = true }()
		seg, err := codec.DecodeSegment(&yieldingReader{r: r, data: alt, cuts: cuts})
		r.Yield("victim.decoded")
		if err == nil || seg != nil {
			accepted = true
			detail = fmt.Sprintf("err=%v segment=%v", err, seg != nil)
		}
	})
	r.Go("other", func() {
		defer func() { bDone = true }()
		for _, o := range others {
			_, err := codec.DecodeSegment(&yieldingReader{r: r, data: o.wire})
			r.Yield("other.decoded")
			if err != nil {
				bErrs++
			}
		}
	})
	if !r.Drive() || !aDone || !bDone {
		r.Violate(P, "liveness", "shared-stuck", "decoding on a shared segment codec did not finish")
		return
	}
	r.Nontrivial = r.switches > 2
	if accepted {
		r.Violate(P, "rejected", fmt.Sprintf("shared-codec-accepted:lz4=%v", lz4On), "a segment altered in transit (%s) and delivered in pieces was ACCEPTED by a codec instance that another task used for intact segments in the meantime: %s", desc, detail)
	}
	if bErrs > 0 {
		r.Probes["intact_segment_rejected_on_shared_codec"] += bErrs // C18's business, not judged here
	}
}
