package sim

import (
	"bytes"
	"fmt"
	"net"
	"os"
	"sort"
	"strconv"
	"strings"
	"testing"

	"github.com/datastax/go-cassandra-native-protocol/datatype"
	"github.com/datastax/go-cassandra-native-protocol/frame"
	"github.com/datastax/go-cassandra-native-protocol/message"
	"github.com/datastax/go-cassandra-native-protocol/primitive"
)

func fgN() int {
	if n, err := strconv.Atoi(os.Getenv("FG_N")); err == nil && n > 0 {
		return n
	}
	return 12000
}

func fgOpts(v primitive.ProtocolVersion, seed int) GenOpts {
	return GenOpts{Version: v, Requests: seed%2 == 0, Responses: seed%2 == 1, HeaderFlags: true, BigChance: 0.1,
		Compressible: seed%4 >= 2,
		// FG_TRACE_REQ=1 exposes the BodyLength over-declaration on traced requests (library defect).
		AllowTracingOnRequests: os.Getenv("FG_TRACE_REQ") != ""}
}

// fgRoundTrip encodes f without compression, decodes it back and compares. Beyond FramesEqual it checks
// that the decoder consumed exactly what the encoder wrote and that the declared body length is the
// real one.
func fgRoundTrip(codec frame.RawCodec, f *frame.Frame) ([]byte, error) {
	want := NormalizeFrame(f) // taken before encoding: EncodeFrame writes Header.BodyLength
	buf := &bytes.Buffer{}
	if err := codec.EncodeFrame(f, buf); err != nil {
		return nil, fmt.Errorf("encode: %w", err)
	}
	enc := append([]byte(nil), buf.Bytes()...)
	if body := len(enc) - f.Header.Version.FrameHeaderLengthInBytes(); int(f.Header.BodyLength) != body {
		return enc, fmt.Errorf("declared body length %d != encoded body length %d", f.Header.BodyLength, body)
	}
	got, err := codec.DecodeFrame(buf)
	if err != nil {
		return enc, fmt.Errorf("decode: %w", err)
	}
	if buf.Len() != 0 {
		return enc, fmt.Errorf("decoder left %d of %d bytes unread", buf.Len(), len(enc))
	}
	if ok, d := FramesEqual(want, got, false); !ok {
		return enc, fmt.Errorf("mismatch: %s", d)
	}
	if ok, d := FramesEqual(f, got, false); !ok {
		return enc, fmt.Errorf("encoding mutated the frame: %s", d)
	}
	return enc, nil
}

// fgExpectedKinds is the full kind list a version must cover.
func fgExpectedKinds(v primitive.ProtocolVersion) []string {
	ks := []string{"STARTUP", "OPTIONS", "QUERY", "PREPARE", "EXECUTE", "BATCH", "REGISTER", "AUTH_RESPONSE",
		"READY", "AUTHENTICATE", "SUPPORTED", "AUTH_CHALLENGE", "AUTH_SUCCESS",
		"RESULT/Void", "RESULT/Rows", "RESULT/SetKeyspace", "RESULT/Prepared", "RESULT/SchemaChange",
		"EVENT/SchemaChange", "EVENT/StatusChange", "EVENT/TopologyChange",
		"ERROR/ServerError", "ERROR/ProtocolError", "ERROR/AuthenticationError", "ERROR/Unavailable", "ERROR/Overloaded",
		"ERROR/IsBootstrapping", "ERROR/TruncateError", "ERROR/WriteTimeout", "ERROR/ReadTimeout", "ERROR/SyntaxError",
		"ERROR/Unauthorized", "ERROR/Invalid", "ERROR/ConfigError", "ERROR/AlreadyExists", "ERROR/Unprepared"}
	if v >= primitive.ProtocolVersion4 {
		ks = append(ks, "ERROR/ReadFailure", "ERROR/FunctionFailure", "ERROR/WriteFailure")
	}
	if v.IsDse() {
		ks = append(ks, "REVISE_REQUEST")
	}
	return ks
}

func TestFrameGenRoundTrip(t *testing.T) {
	n := fgN()
	codec := frame.NewRawCodec()
	for _, v := range primitive.SupportedProtocolVersions() {
		counts, flags, bigs, fails := map[string]int{}, map[string]int{}, 0, 0
		for seed := 1; seed <= n && fails < 5; seed++ {
			f := GenFrame(NewTape(uint64(seed)), fgOpts(v, seed), int16(seed%100))
			kind := KindOf(f.Body.Message)
			counts[kind]++
			for name, fl := range map[string]primitive.HeaderFlag{"tracing": primitive.HeaderFlagTracing,
				"payload": primitive.HeaderFlagCustomPayload, "warning": primitive.HeaderFlagWarning} {
				if f.Header.Flags.Contains(fl) {
					flags[name]++
				}
			}
			if f.Header.Flags.Contains(primitive.HeaderFlagCompressed) {
				t.Errorf("%v seed %d %s: generator set COMPRESSED", v, seed, kind)
			}
			enc, err := fgRoundTrip(codec, f)
			if len(enc) > 600 {
				bigs++
			}
			if err != nil {
				fails++
				t.Errorf("%v seed %d %s: %v\n  frame: %v", v, seed, kind, err, f)
			}
		}
		kinds := make([]string, 0, len(counts))
		for k := range counts {
			kinds = append(kinds, k)
		}
		sort.Strings(kinds)
		var sb strings.Builder
		for _, k := range kinds {
			fmt.Fprintf(&sb, " %s=%d", k, counts[k])
		}
		t.Logf("%v: %d kinds, header flags %v, %d frames > 600 bytes:%s", v, len(kinds), flags, bigs, sb.String())
		if n >= 3000 && fails == 0 {
			for _, k := range fgExpectedKinds(v) {
				if counts[k] == 0 {
					t.Errorf("%v: kind %s never generated in %d frames", v, k, n)
				}
			}
			if len(kinds) != len(fgExpectedKinds(v)) {
				t.Errorf("%v: %d kinds generated, %d expected", v, len(kinds), len(fgExpectedKinds(v)))
			}
		}
	}
}

// TestFrameGenZeroTape: drawing 0 everywhere gives the simplest frame of each direction and still
// round-trips, for every version.
func TestFrameGenZeroTape(t *testing.T) {
	codec := frame.NewRawCodec()
	for _, v := range primitive.SupportedProtocolVersions() {
		for _, c := range []struct {
			o    GenOpts
			want string
		}{
			{GenOpts{Version: v}, "OPTIONS"},
			{GenOpts{Version: v, Requests: true, HeaderFlags: true, BigChance: 1, AllowTracingOnRequests: true}, "OPTIONS"},
			{GenOpts{Version: v, Responses: true, HeaderFlags: true, BigChance: 1}, "READY"},
		} {
			tape := NewReplayTape([]uint32{})
			f := GenFrame(tape, c.o, 0)
			if k := KindOf(f.Body.Message); k != c.want {
				t.Errorf("%v: zero tape gave %s, want %s", v, k, c.want)
			}
			if f.Header.Flags != 0 || f.Body.TracingId != nil || f.Body.CustomPayload != nil || f.Body.Warnings != nil {
				t.Errorf("%v: zero tape produced optional header parts: %v", v, f)
			}
			if _, err := fgRoundTrip(codec, f); err != nil {
				t.Errorf("%v %s: %v", v, c.want, err)
			}
			for _, d := range tape.Recorded() {
				if d != 0 {
					t.Errorf("%v: zero tape recorded a non-zero draw", v)
				}
			}
		}
		// Every individual kind must also survive an all-zero continuation (shrunk tapes end that way).
		for k := 0; k < 40; k++ {
			for sub := 0; sub < 20; sub++ {
				f := GenFrame(NewReplayTape([]uint32{uint32(k), 0, uint32(sub)}), GenOpts{Version: v, HeaderFlags: true}, 1)
				if _, err := fgRoundTrip(codec, f); err != nil {
					t.Errorf("%v kind %d/%d %s: %v", v, k, sub, KindOf(f.Body.Message), err)
				}
			}
		}
	}
}

func TestFrameGenDeterministic(t *testing.T) {
	codec := frame.NewRawCodec()
	for _, v := range primitive.SupportedProtocolVersions() {
		for seed := 1; seed <= 300; seed++ {
			var enc [2][]byte
			var rec [2][]uint32
			for i := range enc {
				tape := NewTape(uint64(seed))
				f := GenFrame(tape, fgOpts(v, seed), 7)
				buf := &bytes.Buffer{}
				if err := codec.EncodeFrame(f, buf); err != nil {
					t.Fatalf("%v seed %d: %v", v, seed, err)
				}
				enc[i], rec[i] = buf.Bytes(), tape.Recorded()
			}
			if !bytes.Equal(enc[0], enc[1]) {
				t.Fatalf("%v seed %d: two generations from one seed encode differently", v, seed)
			}
			// Replaying the recorded draws must rebuild the very same frame.
			f := GenFrame(NewReplayTape(rec[0]), fgOpts(v, seed), 7)
			buf := &bytes.Buffer{}
			if err := codec.EncodeFrame(f, buf); err != nil || !bytes.Equal(buf.Bytes(), enc[0]) {
				t.Fatalf("%v seed %d: replay of the recorded tape differs (err %v)", v, seed, err)
			}
		}
	}
}

// TestFrameGenNormalize pins down what NormalizeFrame erases and what it must keep.
func TestFrameGenNormalize(t *testing.T) {
	v := primitive.ProtocolVersion4
	rows := func(cell []byte) *frame.Frame {
		return frame.NewFrame(v, 1, &message.RowsResult{Metadata: &message.RowsMetadata{ColumnCount: 1}, Data: message.RowSet{message.Row{cell}}})
	}
	eq := func(a, b *frame.Frame, want bool, what string) {
		t.Helper()
		if ok, d := FramesEqual(a, b, false); ok != want {
			t.Errorf("%s: equal=%v want %v (%s)", what, ok, want, d)
		}
	}
	eq(rows(nil), rows([]byte{}), false, "null vs empty cell")
	eq(rows([]byte{1}), rows([]byte{1}), true, "same cell")
	eq(rows([]byte{1, 2}), rows([]byte{1, 3}), false, "different cell")
	ev := func(ip net.IP) *frame.Frame {
		return frame.NewFrame(v, -1, &message.StatusChangeEvent{ChangeType: primitive.StatusChangeTypeUp, Address: &primitive.Inet{Addr: ip, Port: 9042}})
	}
	eq(ev(net.IPv4(10, 0, 0, 1)), ev(net.IP{10, 0, 0, 1}), true, "IPv4 in 16 vs 4 bytes")
	eq(ev(net.IPv4(10, 0, 0, 1)), ev(net.IP{10, 0, 0, 2}), false, "different IPv4")
	fn := func(args []string) *frame.Frame {
		return frame.NewFrame(v, 1, &message.FunctionFailure{Keyspace: "k", Function: "f", Arguments: args})
	}
	eq(fn(nil), fn([]string{}), true, "nil vs empty string list")
	eq(fn(nil), fn([]string{""}), false, "empty list vs list of one empty string")
	q := func(vals []*primitive.Value, ps []byte) *frame.Frame {
		return frame.NewFrame(v, 1, &message.Query{Query: "q", Options: &message.QueryOptions{PositionalValues: vals, PagingState: ps}})
	}
	eq(q(nil, nil), q([]*primitive.Value{}, nil), false, "VALUES flag with zero values vs no flag")
	eq(q(nil, nil), q(nil, []byte{}), false, "null vs empty paging state")
	eq(q([]*primitive.Value{{Type: primitive.ValueTypeRegular}}, nil), q([]*primitive.Value{primitive.NewNullValue()}, nil), true, "regular nil value is null")
	eq(q([]*primitive.Value{primitive.NewValue([]byte{})}, nil), q([]*primitive.Value{primitive.NewNullValue()}, nil), false, "empty vs null value")
	a, b := q(nil, nil), q(nil, nil)
	a.Header.BodyLength, b.Header.Flags = 99, primitive.HeaderFlagCompressed
	eq(a, q(nil, nil), true, "body length ignored")
	eq(b, q(nil, nil), false, "compressed flag compared")
	if ok, _ := FramesEqual(b, q(nil, nil), true); !ok {
		t.Errorf("compressed flag not masked")
	}
	// The copy is deep: mutating the normal form leaves the original alone.
	orig := q([]*primitive.Value{primitive.NewValue([]byte{1, 2, 3})}, []byte{9})
	cp := NormalizeFrame(orig)
	cp.Body.Message.(*message.Query).Options.PositionalValues[0].Contents[0] = 42
	cp.Body.Message.(*message.Query).Options.PagingState[0] = 42
	if o := orig.Body.Message.(*message.Query).Options; o.PositionalValues[0].Contents[0] != 1 || o.PagingState[0] != 9 {
		t.Errorf("NormalizeFrame shares memory with its input")
	}
}

// TestFrameGenKnownBad reproduces, on demand (FG_KNOWN_BAD=1), the library defects the generator keeps
// behind GenKnownBad / AllowTracingOnRequests. Each sub-check FAILS while the defect exists.
func TestFrameGenKnownBad(t *testing.T) {
	if os.Getenv("FG_KNOWN_BAD") == "" {
		t.Skip("set FG_KNOWN_BAD=1 to reproduce the known library defects")
	}
	codec := frame.NewRawCodec()
	v5 := primitive.ProtocolVersion5
	// 1. WRITE_FAILURE with write type CAS (valid per native_protocol_v5.spec section 9, 0x1500).
	wf := frame.NewFrame(v5, 1, &message.WriteFailure{ErrorMessage: "x", Consistency: primitive.ConsistencyLevelQuorum,
		Received: 1, BlockFor: 2, WriteType: primitive.WriteTypeCas})
	if _, err := fgRoundTrip(codec, wf); err != nil {
		t.Errorf("WRITE_FAILURE/CAS v5: %v", err)
	}
	// 2. A request with the TRACING flag: the declared body length counts a tracing id that is not written.
	q := frame.NewFrame(primitive.ProtocolVersion4, 1, &message.Query{Query: "SELECT 1", Options: &message.QueryOptions{}})
	q.RequestTracingId(true)
	if _, err := fgRoundTrip(codec, q); err != nil {
		t.Errorf("traced QUERY v4: %v", err)
	}
	// 3. Response with warnings and custom payload: section 2.2 puts the warnings directly after the
	// tracing id (i.e. before the custom payload); the library writes the payload first.
	r := frame.NewFrame(primitive.ProtocolVersion4, 1, &message.VoidResult{})
	r.SetWarnings([]string{"warn"})
	r.SetCustomPayload(map[string][]byte{"k": {1}})
	buf := &bytes.Buffer{}
	if err := codec.EncodeFrame(r, buf); err != nil {
		t.Fatal(err)
	}
	if body := buf.Bytes()[9:]; !bytes.HasPrefix(body, []byte{0, 1, 0, 4, 'w', 'a', 'r', 'n'}) {
		t.Errorf("warnings are not the first element of the body: % x", body)
	}
	// 4. The generator itself with GenKnownBad on.
	GenKnownBad = true
	defer func() { GenKnownBad = false }()
	for seed, fails := 1, 0; seed <= fgN()*10 && fails < 3; seed++ {
		f := GenFrame(NewTape(uint64(seed)), GenOpts{Version: v5, Responses: true, NoEvents: true}, 1)
		if _, err := fgRoundTrip(codec, f); err != nil {
			fails++
			t.Errorf("seed %d %s: %v\n  frame: %v", seed, KindOf(f.Body.Message), err, f)
		}
	}
}

// fgFeatures lists the version-sensitive (and a few merely interesting) features a frame exercises.
func fgFeatures(f *frame.Frame) []string {
	var fs []string
	add := func(c bool, name string) {
		if c {
			fs = append(fs, name)
		}
	}
	vals := func(vs []*primitive.Value) {
		for _, v := range vs {
			add(v.Type == primitive.ValueTypeNull, "value.null")
			add(v.Type == primitive.ValueTypeUnset, "value.unset")
			add(v.Type == primitive.ValueTypeRegular && len(v.Contents) == 0, "value.empty")
		}
	}
	qo := func(o *message.QueryOptions) {
		add(o.PositionalValues != nil, "qo.positional")
		add(o.PositionalValues != nil && len(o.PositionalValues) == 0, "qo.positional.zero")
		add(o.NamedValues != nil, "qo.named")
		vals(o.PositionalValues)
		for _, v := range o.NamedValues {
			vals([]*primitive.Value{v})
		}
		add(o.SkipMetadata, "qo.skipmeta")
		add(o.PageSize > 0, "qo.pagesize")
		add(o.PageSizeInBytes, "qo.pagebytes")
		add(o.PagingState != nil, "qo.pagingstate")
		add(o.SerialConsistency != nil, "qo.serial")
		add(o.DefaultTimestamp != nil, "qo.timestamp")
		add(o.Keyspace != "", "qo.keyspace")
		add(o.NowInSeconds != nil, "qo.nowinseconds")
		add(o.ContinuousPagingOptions != nil, "qo.continuous")
		add(o.ContinuousPagingOptions != nil && o.ContinuousPagingOptions.NextPages != 0, "qo.continuous.next")
	}
	var dt func(t datatype.DataType)
	dt = func(t datatype.DataType) {
		fs = append(fs, "type."+strings.Fields(t.Code().String())[1])
		switch x := t.(type) {
		case *datatype.List:
			dt(x.ElementType)
		case *datatype.Set:
			dt(x.ElementType)
		case *datatype.Map:
			dt(x.KeyType)
			dt(x.ValueType)
		case *datatype.Tuple:
			for _, e := range x.FieldTypes {
				dt(e)
			}
		case *datatype.UserDefined:
			for _, e := range x.FieldTypes {
				dt(e)
			}
		}
	}
	cols := func(cs []*message.ColumnMetadata) {
		for _, c := range cs {
			dt(c.Type)
		}
	}
	schema := func(tg primitive.SchemaChangeTarget) { fs = append(fs, "target."+string(tg)) }
	ip := func(a []byte) { add(len(a) == 16, "ip.16bytes"); add(len(a) == 4, "ip.4bytes") }
	reasons := func(n int32, rs []*primitive.FailureReason) {
		add(n != 0, "failure.num")
		add(rs != nil, "failure.reasonmap")
		for _, r := range rs {
			ip(r.Endpoint)
			add(r.Code >= 5, "failure.code5+")
		}
	}
	add(f.Header.Flags.Contains(primitive.HeaderFlagTracing) && f.Header.IsResponse, "hdr.tracingid")
	add(f.Header.Flags.Contains(primitive.HeaderFlagTracing) && !f.Header.IsResponse, "hdr.tracingrequest")
	add(f.Header.Flags.Contains(primitive.HeaderFlagCustomPayload), "hdr.payload")
	add(f.Header.Flags.Contains(primitive.HeaderFlagWarning), "hdr.warnings")
	switch m := f.Body.Message.(type) {
	case *message.Startup:
		add(len(m.Options) > 1, "startup.extra")
	case *message.Query:
		qo(m.Options)
	case *message.Execute:
		qo(m.Options)
		add(m.ResultMetadataId != nil, "execute.rmid")
	case *message.Prepare:
		add(m.Keyspace != "", "prepare.keyspace")
	case *message.Batch:
		add(len(m.Children) == 0, "batch.empty")
		for _, c := range m.Children {
			add(c.Query != "", "batch.byquery")
			add(c.Id != nil, "batch.byid")
			vals(c.Values)
		}
		add(m.SerialConsistency != nil, "batch.serial")
		add(m.DefaultTimestamp != nil, "batch.timestamp")
		add(m.Keyspace != "", "batch.keyspace")
		add(m.NowInSeconds != nil, "batch.nowinseconds")
	case *message.Revise:
		add(m.RevisionType == primitive.DseRevisionTypeMoreContinuousPages, "revise.more")
	case *message.AuthSuccess:
		add(m.Token == nil, "token.null")
	case *message.RowsResult:
		md := m.Metadata
		add(md.Columns == nil, "rows.nometadata")
		add(md.PagingState != nil, "rows.pagingstate")
		add(md.NewResultMetadataId != nil, "rows.newmetadataid")
		add(md.ContinuousPageNumber > 0, "rows.continuous")
		add(md.LastContinuousPage, "rows.lastpage")
		cols(md.Columns)
		for _, r := range m.Data {
			for _, c := range r {
				add(c == nil, "cell.null")
				add(c != nil && len(c) == 0, "cell.empty")
			}
		}
	case *message.PreparedResult:
		add(m.ResultMetadataId != nil, "prepared.rmid")
		add(m.VariablesMetadata.PkIndices != nil, "prepared.pkindices")
		cols(m.VariablesMetadata.Columns)
		cols(m.ResultMetadata.Columns)
	case *message.SchemaChangeResult:
		schema(m.Target)
	case *message.SchemaChangeEvent:
		schema(m.Target)
	case *message.TopologyChangeEvent:
		fs = append(fs, "topology."+string(m.ChangeType))
		ip(m.Address.Addr)
	case *message.StatusChangeEvent:
		ip(m.Address.Addr)
	case *message.WriteTimeout:
		fs = append(fs, "writetype."+string(m.WriteType))
		add(m.Contentions != 0, "writetimeout.contentions")
	case *message.WriteFailure:
		fs = append(fs, "writetype."+string(m.WriteType))
		reasons(m.NumFailures, m.FailureReasons)
	case *message.ReadFailure:
		reasons(m.NumFailures, m.FailureReasons)
	}
	return fs
}

// fgFeatureVersions is an oracle written independently of the generator (from specs/*.spec): the
// versions in which a version-sensitive feature may appear. "2345ab" = v2 v3 v4 v5 DSE1 DSE2. Features
// not listed are valid everywhere.
var fgFeatureVersions = map[string]string{
	"hdr.payload": "45ab", "hdr.warnings": "45ab", "value.unset": "45ab",
	"qo.named": "345ab", "qo.timestamp": "345ab", "qo.keyspace": "5b", "qo.nowinseconds": "5",
	"qo.pagebytes": "ab", "qo.continuous": "ab", "qo.continuous.next": "b",
	"execute.rmid": "5b", "prepare.keyspace": "5b", "prepared.rmid": "5b", "prepared.pkindices": "45ab",
	"batch.serial": "345ab", "batch.timestamp": "345ab", "batch.keyspace": "5b", "batch.nowinseconds": "5",
	"revise.more": "b", "rows.newmetadataid": "5b", "rows.continuous": "ab", "rows.lastpage": "ab",
	"type.Date": "45ab", "type.Time": "45ab", "type.Smallint": "45ab", "type.Tinyint": "45ab", "type.Duration": "5ab",
	"type.Udt": "345ab", "type.Tuple": "345ab",
	"target.TYPE": "345ab", "target.FUNCTION": "45ab", "target.AGGREGATE": "45ab", "topology.MOVED_NODE": "3",
	"writetype.CAS": "345ab", "writetype.VIEW": "45ab", "writetype.CDC": "45ab", "writetimeout.contentions": "5",
	"failure.num": "4", "failure.reasonmap": "5ab", "failure.code5+": "b", "startup.extra": "5b",
}

func fgVersionLetter(v primitive.ProtocolVersion) string {
	switch v {
	case primitive.ProtocolVersionDse1:
		return "a"
	case primitive.ProtocolVersionDse2:
		return "b"
	}
	return fmt.Sprint(int(v))
}

// TestFrameGenFeatures checks the generator against the independent oracle above (nothing outside its
// version set) and, for large runs, that every feature allowed in a version is actually produced.
func TestFrameGenFeatures(t *testing.T) {
	n := fgN()
	all := map[string]bool{}
	per := map[primitive.ProtocolVersion]map[string]int{}
	for _, v := range primitive.SupportedProtocolVersions() {
		per[v] = map[string]int{}
		for seed := 1; seed <= n; seed++ {
			o := fgOpts(v, seed)
			o.AllowTracingOnRequests = true
			f := GenFrame(NewTape(uint64(seed)), o, int16(seed%100))
			for _, ft := range fgFeatures(f) {
				per[v][ft]++
				all[ft] = true
				if vs, ok := fgFeatureVersions[ft]; ok && !strings.Contains(vs, fgVersionLetter(v)) {
					t.Fatalf("%v seed %d %s: feature %s is not valid in this version", v, seed, KindOf(f.Body.Message), ft)
				}
			}
		}
	}
	names := make([]string, 0, len(all))
	for ft := range all {
		names = append(names, ft)
	}
	sort.Strings(names)
	var sb strings.Builder
	fmt.Fprintf(&sb, "%-26s %6s %6s %6s %6s %6s %6s\n", "feature", "v2", "v3", "v4", "v5", "DSE1", "DSE2")
	for _, ft := range names {
		fmt.Fprintf(&sb, "%-26s", ft)
		for _, v := range primitive.SupportedProtocolVersions() {
			fmt.Fprintf(&sb, " %6d", per[v][ft])
			vs, listed := fgFeatureVersions[ft]
			if n >= 3000 && per[v][ft] == 0 && (!listed || strings.Contains(vs, fgVersionLetter(v))) && !strings.HasPrefix(ft, "type.") {
				t.Errorf("%v: feature %s never generated in %d frames", v, ft, n)
			}
		}
		sb.WriteString("\n")
	}
	t.Logf("feature coverage over %d frames per version:\n%s", n, sb.String())
	for ft := range fgFeatureVersions {
		if !all[ft] {
			t.Errorf("feature %s of the oracle was never generated in any version", ft)
		}
	}
}
