package sim

import (
	"errors"
	"fmt"
	"io"
	"net"
	"strconv"
	"sync"
	"time"

	"verif/simrt"
)

// Simulated TCP (DESIGN.md §3.4). Every blocking wait is on one signal channel (plus an optional
// timer) and state is re-examined in a fixed priority order after every wake-up, so outcomes never
// depend on which select case the Go runtime happened to pick.

var (
	ErrClosed    = errors.New("simnet: use of closed network connection")
	ErrReset     = errors.New("simnet: connection reset by peer")
	ErrBrokenPipe = errors.New("simnet: broken pipe")
	ErrInjected  = errors.New("simnet: injected I/O error")
)

type timeoutErr struct{}

func (timeoutErr) Error() string   { return "simnet: i/o timeout" }
func (timeoutErr) Timeout() bool   { return true }
func (timeoutErr) Temporary() bool { return true }

type chunk struct {
	data []byte
	at   time.Time
}

// Tap records everything written in one direction.
type Tap struct {
	Sent      []byte // bytes as written by the sender
	Delivered []byte // bytes as put on the wire after mutation (what the receiver can read)
	Writes    []int  // end offset (in Sent) of every Write call
}

// pipe is one direction of a connection.
type pipe struct {
	name     string
	buf      []byte  // readable now
	transit  []chunk // not yet delivered
	inFlight int     // len(buf)+sum(transit)
	capacity int
	wclosed  bool // writer side closed (FIN): reader sees EOF after draining
	rclosed  bool // reader side closed: writer gets broken pipe
	rst      bool
	sig      chan struct{}
	tap      *Tap
	latency  time.Duration
	// faults
	werrAt     int64 // fail the write that crosses this absolute offset (-1: off)
	rerrAt     int64 // fail reads once this many bytes were read (-1: off)
	stallUntil time.Time
	mutators   []func(off int64, b []byte) []byte
	cutAt      int64 // stop delivering after this offset and FIN (-1: off)
	written    int64
	read       int64
	maxChunk   int // 0: unlimited
}

type Net struct {
	r         *Run
	mu        sync.Mutex
	listeners map[string]*Listener
	conns     []*Conn
	nextPort  int
}

func newNet(r *Run) *Net { return &Net{r: r, listeners: map[string]*Listener{}, nextPort: 40000} }

func newPipe(name string) *pipe {
	return &pipe{name: name, capacity: 1 << 20, sig: make(chan struct{}), tap: &Tap{}, werrAt: -1, rerrAt: -1, cutAt: -1}
}

// bump wakes every waiter of this pipe. Caller holds Net.mu.
func (p *pipe) bump() { close(p.sig); p.sig = make(chan struct{}) }

// Conn is one end of a simulated connection.
type Conn struct {
	n          *Net
	Name       string
	rd, wr     *pipe
	laddr      *net.TCPAddr
	raddr      *net.TCPAddr
	closed     bool
	rdeadline  time.Time
	peer       *Conn
	ChunkReads bool // draw read chunk sizes from the tape
}

// LinkOpts configures a connection pair.
type LinkOpts struct {
	Capacity   int           // bytes in flight per direction (0: 1 MiB)
	Latency    time.Duration // delivery latency
	ChunkReads bool
	MaxChunk   int
}

// Pair creates a connected pair (client end, server end).
func (n *Net) Pair(name string, caddr, saddr *net.TCPAddr, o LinkOpts) (*Conn, *Conn) {
	ab, ba := newPipe(name+":c>s"), newPipe(name+":s>c")
	for _, p := range []*pipe{ab, ba} {
		if o.Capacity > 0 {
			p.capacity = o.Capacity
		}
		p.latency = o.Latency
		p.maxChunk = o.MaxChunk
	}
	a := &Conn{n: n, Name: name + ".c", rd: ba, wr: ab, laddr: caddr, raddr: saddr, ChunkReads: o.ChunkReads}
	b := &Conn{n: n, Name: name + ".s", rd: ab, wr: ba, laddr: saddr, raddr: caddr, ChunkReads: o.ChunkReads}
	a.peer, b.peer = b, a
	n.mu.Lock()
	n.conns = append(n.conns, a, b)
	n.mu.Unlock()
	return a, b
}

func (n *Net) NewClientAddr() *net.TCPAddr {
	n.mu.Lock()
	defer n.mu.Unlock()
	n.nextPort++
	return &net.TCPAddr{IP: net.IPv4(10, 0, 0, 1), Port: n.nextPort}
}

func (c *Conn) Tap() *Tap      { return c.wr.tap } // what this end wrote
func (c *Conn) PeerTap() *Tap  { return c.rd.tap } // what the peer wrote to us
func (c *Conn) BytesRead() int64 {
	c.n.mu.Lock()
	defer c.n.mu.Unlock()
	return c.rd.read
}

func (c *Conn) LocalAddr() net.Addr  { return c.laddr }
func (c *Conn) RemoteAddr() net.Addr { return c.raddr }

func (c *Conn) SetDeadline(t time.Time) error {
	_ = c.SetWriteDeadline(t)
	return c.SetReadDeadline(t)
}
func (c *Conn) SetWriteDeadline(t time.Time) error { return nil }
func (c *Conn) SetReadDeadline(t time.Time) error {
	c.n.mu.Lock()
	defer c.n.mu.Unlock()
	if c.closed {
		return ErrClosed
	}
	c.rdeadline = t
	c.rd.bump()
	return nil
}

// deliverDue moves chunks whose delivery time has come into the readable buffer. Caller holds mu.
func (p *pipe) deliverDue(now time.Time) {
	if now.Before(p.stallUntil) {
		return
	}
	for len(p.transit) > 0 && !p.transit[0].at.After(now) {
		p.buf = append(p.buf, p.transit[0].data...)
		p.transit = p.transit[1:]
	}
}

func (c *Conn) Read(b []byte) (int, error) {
	simrt.Yield("net.Read:" + c.Name)
	if len(b) == 0 {
		return 0, nil
	}
	for {
		c.n.mu.Lock()
		p := c.rd
		now := time.Now()
		p.deliverDue(now)
		switch {
		case c.closed:
			c.n.mu.Unlock()
			return 0, ErrClosed
		case p.rst:
			c.n.mu.Unlock()
			return 0, ErrReset
		case p.rerrAt >= 0 && p.read >= p.rerrAt:
			c.n.mu.Unlock()
			return 0, ErrInjected
		case len(p.buf) > 0:
			n := len(b)
			if n > len(p.buf) {
				n = len(p.buf)
			}
			if p.rerrAt >= 0 && p.read+int64(n) > p.rerrAt {
				n = int(p.rerrAt - p.read)
			}
			if p.maxChunk > 0 && n > p.maxChunk {
				n = p.maxChunk
			}
			if c.ChunkReads && n > 1 {
				// 0 = everything available; otherwise a short read
				if k := c.n.r.T.DrawP("net.chunk", n, 0.6); k > 0 {
					n = k
					c.n.r.Probes["short_read"]++
				}
			}
			copy(b, p.buf[:n])
			p.buf = p.buf[n:]
			p.inFlight -= n
			p.read += int64(n)
			p.bump() // space for the writer
			c.n.mu.Unlock()
			return n, nil
		case p.wclosed && len(p.transit) == 0:
			c.n.mu.Unlock()
			return 0, io.EOF
		case !c.rdeadline.IsZero() && !now.Before(c.rdeadline):
			c.n.mu.Unlock()
			return 0, timeoutErr{}
		}
		// wait: for a signal, the next delivery, the end of a stall, or the deadline
		sig := p.sig
		var wake time.Time
		consider := func(t time.Time) {
			if !t.IsZero() && t.After(now) && (wake.IsZero() || t.Before(wake)) {
				wake = t
			}
		}
		consider(c.rdeadline)
		if len(p.transit) > 0 {
			consider(p.transit[0].at)
			consider(p.stallUntil)
		}
		c.n.mu.Unlock()
		if wake.IsZero() {
			<-sig
		} else {
			t := time.NewTimer(wake.Sub(now))
			select {
			case <-sig:
				t.Stop()
			case <-t.C:
			}
		}
		simrt.Yield("net.Read.wake:" + c.Name)
	}
}

func (c *Conn) Write(b []byte) (int, error) {
	simrt.Yield("net.Write:" + c.Name)
	written := 0
	for {
		c.n.mu.Lock()
		p := c.wr
		switch {
		case c.closed:
			c.n.mu.Unlock()
			return written, ErrClosed
		case p.rst:
			c.n.mu.Unlock()
			return written, ErrReset
		case p.rclosed:
			c.n.mu.Unlock()
			return written, ErrBrokenPipe
		}
		if written == len(b) {
			c.n.mu.Unlock()
			return written, nil
		}
		space := p.capacity - p.inFlight
		if space > 0 {
			n := len(b) - written
			if n > space {
				n = space
				c.n.r.Probes["backpressure"]++
			}
			fail := false
			if p.werrAt >= 0 && p.written+int64(n) > p.werrAt {
				n = int(p.werrAt - p.written)
				if n < 0 {
					n = 0
				}
				fail = true
			}
			if n > 0 {
				data := append([]byte(nil), b[written:written+n]...)
				p.tap.Sent = append(p.tap.Sent, data...)
				off := p.written
				for _, m := range p.mutators {
					data = m(off, data)
				}
				if p.cutAt >= 0 {
					if off >= p.cutAt {
						data = nil
					} else if off+int64(len(data)) > p.cutAt {
						data = data[:p.cutAt-off]
					}
				}
				p.written += int64(n)
				if len(data) > 0 {
					p.tap.Delivered = append(p.tap.Delivered, data...)
					p.inFlight += len(data)
					at := time.Now().Add(p.latency)
					if k := len(p.transit); k > 0 && p.transit[k-1].at.After(at) {
						at = p.transit[k-1].at
					}
					if p.latency == 0 && len(p.transit) == 0 && !time.Now().Before(p.stallUntil) {
						p.buf = append(p.buf, data...)
					} else {
						p.transit = append(p.transit, chunk{data: data, at: at})
					}
				}
				if p.cutAt >= 0 && p.written >= p.cutAt && !p.wclosed {
					p.wclosed = true
				}
				written += n
				p.bump()
			}
			if fail {
				p.tap.Writes = append(p.tap.Writes, len(p.tap.Sent))
				c.n.mu.Unlock()
				c.n.r.Event("net %s: injected write error after %d bytes", c.Name, p.written)
				return written, ErrInjected
			}
			if written == len(b) {
				p.tap.Writes = append(p.tap.Writes, len(p.tap.Sent))
				c.n.mu.Unlock()
				return written, nil
			}
		}
		sig := p.sig
		c.n.mu.Unlock()
		<-sig
		simrt.Yield("net.Write.wake:" + c.Name)
	}
}

func (c *Conn) Close() error {
	simrt.Yield("net.Close:" + c.Name)
	c.n.mu.Lock()
	defer c.n.mu.Unlock()
	if c.closed {
		return ErrClosed
	}
	c.closed = true
	c.wr.wclosed = true
	c.rd.rclosed = true
	c.wr.bump()
	c.rd.bump()
	return nil
}

// ---- faults (called by the scheduler or by harness tasks) ----

// Rst resets the connection: both ends fail from now on.
func (c *Conn) Rst() {
	c.n.mu.Lock()
	defer c.n.mu.Unlock()
	c.rd.rst, c.wr.rst = true, true
	c.rd.bump()
	c.wr.bump()
}

// FinFromPeer makes this end read EOF (after draining) as if the peer had shut down its write side.
func (c *Conn) FinFromPeer() {
	c.n.mu.Lock()
	defer c.n.mu.Unlock()
	c.rd.wclosed = true
	c.rd.bump()
}

// StallIncoming stops delivery to this end for d of fake time.
func (c *Conn) StallIncoming(d time.Duration) {
	c.n.mu.Lock()
	defer c.n.mu.Unlock()
	p := c.rd
	p.stallUntil = time.Now().Add(d)
	// everything readable becomes in-transit again
	if len(p.buf) > 0 {
		p.transit = append([]chunk{{data: p.buf, at: p.stallUntil}}, p.transit...)
		p.buf = nil
	}
	for i := range p.transit {
		if p.transit[i].at.Before(p.stallUntil) {
			p.transit[i].at = p.stallUntil
		}
	}
	p.bump()
}

// WriteErrAfter makes writes by this end fail once k more bytes have been written.
func (c *Conn) WriteErrAfter(k int) {
	c.n.mu.Lock()
	defer c.n.mu.Unlock()
	if c.wr.werrAt >= 0 && c.wr.werrAt <= c.wr.written+int64(k) {
		return // a socket that has reported a write error keeps failing: an earlier arming is never pushed back
	}
	c.wr.werrAt = c.wr.written + int64(k)
}

// ReadErrAfter makes reads by this end fail once k more bytes have been read.
func (c *Conn) ReadErrAfter(k int) {
	c.n.mu.Lock()
	defer c.n.mu.Unlock()
	if c.rd.rerrAt >= 0 && c.rd.rerrAt <= c.rd.read+int64(k) {
		return // likewise for reads
	}
	c.rd.rerrAt = c.rd.read + int64(k)
	c.rd.bump()
}

// MutateOutgoing installs a mutator on the bytes this end writes (keyed by absolute stream offset).
func (c *Conn) MutateOutgoing(m func(off int64, b []byte) []byte) {
	c.n.mu.Lock()
	defer c.n.mu.Unlock()
	c.wr.mutators = append(c.wr.mutators, m)
}

// CutOutgoingAt truncates what this end sends at absolute offset k and signals FIN to the peer.
func (c *Conn) CutOutgoingAt(k int64) {
	c.n.mu.Lock()
	defer c.n.mu.Unlock()
	c.wr.cutAt = k
	if c.wr.written >= k {
		c.wr.wclosed = true
	}
	c.wr.bump()
}

func (c *Conn) WrittenBytes() int64 {
	c.n.mu.Lock()
	defer c.n.mu.Unlock()
	return c.wr.written
}

func (n *Net) killAll() {
	n.mu.Lock()
	defer n.mu.Unlock()
	for _, c := range n.conns {
		c.closed = true
		c.rd.rst, c.wr.rst = true, true
		c.rd.bump()
		c.wr.bump()
	}
	for _, l := range n.listeners {
		if !l.closed {
			l.closed = true
			close(l.sig)
			l.sig = make(chan struct{})
		}
	}
}

// ---- listener / dial ----

type Listener struct {
	n       *Net
	addr    *net.TCPAddr
	backlog []*Conn
	closed  bool
	sig     chan struct{}
	Opts    LinkOpts
	Conns   []*Conn // server ends, in accept-queue order
	Clients []*Conn
}

func parseAddr(s string) (*net.TCPAddr, error) {
	host, port, err := net.SplitHostPort(s)
	if err != nil {
		return nil, err
	}
	p, err := strconv.Atoi(port)
	if err != nil {
		return nil, err
	}
	ip := net.ParseIP(host)
	if ip == nil {
		ip = net.IPv4(10, 0, 0, 2)
	}
	return &net.TCPAddr{IP: ip, Port: p}, nil
}

func (n *Net) Listen(network, address string) (net.Listener, error) {
	a, err := parseAddr(address)
	if err != nil {
		return nil, err
	}
	n.mu.Lock()
	defer n.mu.Unlock()
	if l, ok := n.listeners[a.String()]; ok && !l.closed {
		return nil, fmt.Errorf("simnet: listen %s: address already in use", address)
	}
	l := &Listener{n: n, addr: a, sig: make(chan struct{})}
	if o, ok := n.r.listenOpts[a.String()]; ok {
		l.Opts = o
	}
	n.listeners[a.String()] = l
	return l, nil
}

func (n *Net) ListenerAt(address string) *Listener {
	a, err := parseAddr(address)
	if err != nil {
		return nil
	}
	n.mu.Lock()
	defer n.mu.Unlock()
	return n.listeners[a.String()]
}

func (l *Listener) Accept() (net.Conn, error) {
	simrt.Yield("net.Accept")
	for {
		l.n.mu.Lock()
		switch {
		case l.closed:
			l.n.mu.Unlock()
			return nil, ErrClosed
		case len(l.backlog) > 0:
			c := l.backlog[0]
			l.backlog = l.backlog[1:]
			l.n.mu.Unlock()
			return c, nil
		}
		sig := l.sig
		l.n.mu.Unlock()
		<-sig
		simrt.Yield("net.Accept.wake")
	}
}

func (l *Listener) Close() error {
	simrt.Yield("net.Listener.Close")
	l.n.mu.Lock()
	defer l.n.mu.Unlock()
	if l.closed {
		return ErrClosed
	}
	l.closed = true
	close(l.sig)
	l.sig = make(chan struct{})
	return nil
}

func (l *Listener) Addr() net.Addr { return l.addr }

// Dial connects to a listener.
func (n *Net) Dial(address string) (net.Conn, error) {
	simrt.Yield("net.Dial")
	a, err := parseAddr(address)
	if err != nil {
		return nil, err
	}
	caddr := n.NewClientAddr()
	n.mu.Lock()
	l, ok := n.listeners[a.String()]
	if !ok || l.closed {
		n.mu.Unlock()
		return nil, fmt.Errorf("simnet: dial %s: connection refused", address)
	}
	opts := l.Opts
	n.mu.Unlock()
	c, s := n.Pair(fmt.Sprintf("L%d", caddr.Port), caddr, l.addr, opts)
	n.mu.Lock()
	if l.closed {
		n.mu.Unlock()
		return nil, fmt.Errorf("simnet: dial %s: connection refused", address)
	}
	l.backlog = append(l.backlog, s)
	l.Conns = append(l.Conns, s)
	l.Clients = append(l.Clients, c)
	close(l.sig)
	l.sig = make(chan struct{})
	n.mu.Unlock()
	return c, nil
}
