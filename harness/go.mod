module verif/harness

go 1.26.8

require (
	github.com/anishathalye/porcupine v1.3.0
	github.com/datastax/go-cassandra-native-protocol v0.0.0
	verif/simrt v0.0.0
)

replace github.com/datastax/go-cassandra-native-protocol => ../repo

replace verif/simrt => ../simrt
