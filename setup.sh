#!/bin/bash
# Builds the verification tools from the sources in /verif, offline. Run once after a fresh restore.
set -e
cd "$(dirname "$(readlink -f "$0")")"
export GOFLAGS=-mod=mod GOPROXY=off GOSUMDB=off GOTOOLCHAIN=local
mkdir -p bin evidence replays
go1.26.8 build -o bin/vinstr ./cmd/vinstr
go1.26.8 build -o bin/vcheck ./cmd/vcheck
# warm the Go build cache (standard library for go1.26.8, the instrumented tree and the harness)
W=$(mktemp -d /var/tmp/vcheck-warm-XXXX)
./bin/vcheck prepare "$W" client >/dev/null
rm -rf "$W"
./bin/vcheck prepare "$W" codecs >/dev/null
(cd "$W/harness" && CGO_ENABLED=1 go1.26.8 test -race -tags verif -c -o "$W/race.test" ./sim >/dev/null 2>&1 || true)
rm -rf "$W"
echo "setup ok"
