// Package simrt is the cooperative-scheduling runtime that instrumented repository code and the
// simulation harness share. Real goroutines are parked at Yield points and released one at a time by
// a scheduler (the harness) that draws every decision from a choice tape.
//
// With no scheduler installed every entry point degrades to the plain Go construct it replaced
// (Yield is a no-op, Go is `go`, Lock is Lock, MapKeys is sorted order), so instrumented code still
// passes the repository's own tests.
package simrt

import (
	"fmt"
	"runtime"
	"sort"
	"strings"
	"sync"
	"sync/atomic"
)

// Chooser is the only source of choices. Draw returns a value in [0,n); 0 must be the boring choice.
type Chooser interface {
	Draw(site string, n int) int
}

const (
	StParked = iota
	StRunning
	StLockWait
	StDone
)

// Task is one simulated thread of control (a real goroutine).
type Task struct {
	ID      string
	Spawn   string // site of the go statement (or harness label) that created it
	At      string // last yield site reached
	Repo    bool   // spawned by instrumented repository code
	State   int
	LockOn  interface{}
	Prio    int // for PCT scheduling (harness-owned)
	wake    chan struct{}
	nchild  int
	noYield int
	goid    uint64
}

type PanicRec struct {
	Task  string
	Spawn string
	At    string
	Value string
	Stack string
}

type Sched struct {
	mu       sync.Mutex
	ch       Chooser
	byG      map[uint64]*Task
	parked   map[string]*Task
	lockWait map[interface{}][]*Task
	live     map[string]*Task
	all      []*Task
	kick     chan struct{}
	root     *Task
	Steps    int
	Panics   []PanicRec
	// SortedMaps: map ranges iterate in sorted key order without permutation.
	SortedMaps bool
	// OnSpawn is called (under no lock, from the spawning goroutine) when a task is created.
	OnSpawn func(t *Task)
	aborted atomic.Bool
	// Counters of rare conditions (probes).
	HugeAllocs    int
	pools         map[*sync.Pool][]interface{}
	LockContended int
	SelectMulti   int
	MapRanges     int
}

var cur atomic.Pointer[Sched]

func Install(s *Sched) { cur.Store(s) }
func Uninstall()       { cur.Store(nil) }
func Current() *Sched  { return cur.Load() }

func New(ch Chooser) *Sched {
	return &Sched{
		ch:       ch,
		byG:      map[uint64]*Task{},
		parked:   map[string]*Task{},
		lockWait: map[interface{}][]*Task{},
		live:     map[string]*Task{},
		kick:     make(chan struct{}, 1),
	}
}

func goid() uint64 {
	var buf [40]byte
	n := runtime.Stack(buf[:], false)
	var id uint64
	for _, c := range buf[10:n] { // skip "goroutine "
		if c < '0' || c > '9' {
			break
		}
		id = id*10 + uint64(c-'0')
	}
	return id
}

func (s *Sched) doKick() {
	select {
	case s.kick <- struct{}{}:
	default:
	}
}

// KickChan is signalled whenever a task parks or exits.
func (s *Sched) KickChan() <-chan struct{} { return s.kick }

func (s *Sched) current() *Task {
	g := goid()
	s.mu.Lock()
	t := s.byG[g]
	s.mu.Unlock()
	return t
}

// Root registers the calling goroutine (the scheduler) as task "r". It never parks.
func (s *Sched) Root() {
	t := &Task{ID: "r", wake: make(chan struct{}), State: StRunning, goid: goid()}
	s.mu.Lock()
	s.byG[t.goid] = t
	s.root = t
	s.mu.Unlock()
}

// CurrentTask returns the task of the calling goroutine, or nil.
func CurrentTask() *Task {
	s := cur.Load()
	if s == nil {
		return nil
	}
	return s.current()
}

// Go starts fn as a new task (parked from birth). Called by instrumented code in place of `go`.
func Go(site string, fn func()) { spawn(site, fn, true) }

// GoHarness starts a harness task (not counted as a repository goroutine).
func GoHarness(label string, fn func()) *Task { return spawn(label, fn, false) }

func spawn(site string, fn func(), repo bool) *Task {
	s := cur.Load()
	if s == nil {
		go fn()
		return nil
	}
	p := s.current()
	if p == nil {
		go fn()
		return nil
	}
	s.mu.Lock()
	c := &Task{ID: fmt.Sprintf("%s.%d", p.ID, p.nchild), wake: make(chan struct{}), Spawn: site, At: "spawn", Repo: repo, State: StParked}
	p.nchild++
	s.parked[c.ID] = c
	s.live[c.ID] = c
	s.all = append(s.all, c)
	s.mu.Unlock()
	if s.OnSpawn != nil {
		s.OnSpawn(c)
	}
	go func() {
		g := goid()
		s.mu.Lock()
		c.goid = g
		s.byG[g] = c
		s.mu.Unlock()
		<-c.wake
		if s.aborted.Load() {
			s.mu.Lock()
			c.State = StDone
			delete(s.live, c.ID)
			delete(s.byG, g)
			s.mu.Unlock()
			s.doKick()
			return
		}
		defer func() {
			r := recover()
			if _, isAbort := r.(abortSentinel); isAbort {
				r = nil
			}
			if _, isHuge := r.(HugeAlloc); isHuge {
				s.mu.Lock()
				s.HugeAllocs++
				s.mu.Unlock()
				r = nil
			}
			if r != nil {
				buf := make([]byte, 16384)
				n := runtime.Stack(buf, false)
				s.mu.Lock()
				s.Panics = append(s.Panics, PanicRec{Task: c.ID, Spawn: c.Spawn, At: c.At, Value: fmt.Sprint(r), Stack: string(buf[:n])})
				s.mu.Unlock()
			}
			s.mu.Lock()
			c.State = StDone
			delete(s.live, c.ID)
			delete(s.byG, g)
			s.mu.Unlock()
			s.doKick()
		}()
		fn()
	}()
	return c
}

// Yield parks the calling task until the scheduler releases it.
func Yield(site string) {
	s := cur.Load()
	if s == nil {
		return
	}
	t := s.current()
	if t == nil || t == s.root || t.noYield > 0 {
		return
	}
	s.mu.Lock()
	t.At = site
	t.State = StParked
	s.parked[t.ID] = t
	s.mu.Unlock()
	s.doKick()
	<-t.wake
	if s.aborted.Load() {
		panic(abortSentinel{})
	}
}

type abortSentinel struct{}

// Abort makes every task that is subsequently released unwind (panic with a private sentinel that
// the task wrapper swallows). Used to dispose of parked tasks when a run is cut short.
func (s *Sched) Abort() { s.aborted.Store(true) }

// NoYield runs fn with yields disabled for the calling task (fn runs atomically w.r.t. the scheduler,
// unless it blocks in a real primitive).
func NoYield(fn func()) {
	t := CurrentTask()
	if t == nil {
		fn()
		return
	}
	t.noYield++
	defer func() { t.noYield-- }()
	fn()
}

// SelectOrder returns a chosen permutation of 0..n-1 (identity when every draw is 0).
func SelectOrder(site string, n int) []int {
	p := make([]int, n)
	for i := range p {
		p[i] = i
	}
	s := cur.Load()
	if s == nil || s.current() == nil {
		return p
	}
	for i := 0; i < n-1; i++ {
		j := i + s.ch.Draw(site, n-i)
		p[i], p[j] = p[j], p[i]
	}
	return p
}

// SelectReady is called by the select rewrite with the number of cases that were ready at poll time
// (probe only).
func SelectReady(n int) {
	if n > 1 {
		if s := cur.Load(); s != nil {
			s.mu.Lock()
			s.SelectMulti++
			s.mu.Unlock()
		}
	}
}

func ZeroOfChan[T any, C ~chan T | ~<-chan T](c C) (z T) { return }

type locker interface {
	Lock()
	Unlock()
	TryLock() bool
}
type rlocker interface {
	locker
	RLock()
	RUnlock()
	TryRLock() bool
}

func acquire(p interface{}, site string, try func() bool, block func()) {
	s := cur.Load()
	var t *Task
	if s != nil {
		t = s.current()
	}
	if t == nil || t == s.root || t.noYield > 0 {
		block()
		return
	}
	Yield(site)
	for !try() {
		s.mu.Lock()
		s.lockWait[p] = append(s.lockWait[p], t)
		t.At = site
		t.State = StLockWait
		t.LockOn = p
		s.LockContended++
		s.mu.Unlock()
		s.doKick()
		<-t.wake
		if s.aborted.Load() {
			panic(abortSentinel{})
		}
	}
	t.LockOn = nil
}

func release(p interface{}) {
	s := cur.Load()
	if s == nil {
		return
	}
	s.mu.Lock()
	for _, w := range s.lockWait[p] {
		w.State = StParked
		s.parked[w.ID] = w
	}
	delete(s.lockWait, p)
	s.mu.Unlock()
}

func Lock(m *sync.Mutex, site string)       { acquire(m, site, m.TryLock, m.Lock) }
func Unlock(m *sync.Mutex, site string)     { m.Unlock(); release(m) }
func RWLock(m *sync.RWMutex, site string)   { acquire(m, site, m.TryLock, m.Lock) }
func RWUnlock(m *sync.RWMutex, site string) { m.Unlock(); release(m) }
func RLock(m *sync.RWMutex, site string)    { acquire(m, site, m.TryRLock, m.RLock) }
func RUnlock(m *sync.RWMutex, site string)  { m.RUnlock(); release(m) }

// Parked returns the parked tasks sorted by id.
func (s *Sched) Parked() []*Task {
	s.mu.Lock()
	out := make([]*Task, 0, len(s.parked))
	for _, t := range s.parked {
		out = append(out, t)
	}
	s.mu.Unlock()
	sort.Slice(out, func(i, j int) bool { return out[i].ID < out[j].ID })
	return out
}

func (s *Sched) NParked() int {
	s.mu.Lock()
	defer s.mu.Unlock()
	return len(s.parked)
}

// Release lets t run until its next yield, block or exit.
func (s *Sched) Release(t *Task) {
	s.mu.Lock()
	delete(s.parked, t.ID)
	t.State = StRunning
	s.Steps++
	s.mu.Unlock()
	t.wake <- struct{}{}
}

// Live returns live (not finished) tasks sorted by id.
func (s *Sched) Live() []*Task {
	s.mu.Lock()
	out := make([]*Task, 0, len(s.live))
	for _, t := range s.live {
		out = append(out, t)
	}
	s.mu.Unlock()
	sort.Slice(out, func(i, j int) bool { return out[i].ID < out[j].ID })
	return out
}

func (s *Sched) NLive() int {
	s.mu.Lock()
	defer s.mu.Unlock()
	return len(s.live)
}

func (s *Sched) NTasks() int {
	s.mu.Lock()
	defer s.mu.Unlock()
	return len(s.all)
}

func (s *Sched) PanicsCopy() []PanicRec {
	s.mu.Lock()
	defer s.mu.Unlock()
	return append([]PanicRec(nil), s.Panics...)
}

func (s *Sched) NPanics() int {
	s.mu.Lock()
	defer s.mu.Unlock()
	return len(s.Panics)
}

// MapKeys returns the keys of m in an order chosen by the scheduler (sorted when none is installed,
// when SortedMaps is set, or when every draw is 0).
func MapKeys[K comparable, V any](m map[K]V, site string) []K {
	keys := make([]K, 0, len(m))
	for k := range m {
		keys = append(keys, k)
	}
	sortKeys(keys)
	s := cur.Load()
	if s == nil || s.SortedMaps || len(keys) < 2 || s.current() == nil {
		return keys
	}
	s.mu.Lock()
	s.MapRanges++
	s.mu.Unlock()
	n := len(keys)
	for i := 0; i < n-1; i++ {
		j := i + s.ch.Draw(site, n-i)
		keys[i], keys[j] = keys[j], keys[i]
	}
	return keys
}

func sortKeys[K comparable](keys []K) {
	switch ks := any(keys).(type) {
	case []string:
		sort.Strings(ks)
		return
	case []int:
		sort.Ints(ks)
		return
	case []int16:
		sort.Slice(ks, func(i, j int) bool { return ks[i] < ks[j] })
		return
	}
	strs := make([]string, len(keys))
	for i, k := range keys {
		strs[i] = fmt.Sprintf("%v", k)
	}
	idx := make([]int, len(keys))
	for i := range idx {
		idx[i] = i
	}
	sort.SliceStable(idx, func(i, j int) bool { return strs[idx[i]] < strs[idx[j]] })
	out := make([]K, len(keys))
	for i, j := range idx {
		out[i] = keys[j]
	}
	copy(keys, out)
}

// ---- deterministic sync.Pool ----
//
// sync.Pool hands objects back depending on the processor the goroutine happens to run on and on
// garbage collection: a source of nondeterminism the simulator does not otherwise control. Under the
// scheduler a pool is a plain LIFO stack per Pool value; with no scheduler the real pool is used.

func PoolGet(p *sync.Pool) interface{} {
	s := cur.Load()
	if s == nil || s.current() == nil {
		return p.Get()
	}
	s.mu.Lock()
	st := s.pools[p]
	var x interface{}
	if n := len(st); n > 0 {
		x = st[n-1]
		s.pools[p] = st[:n-1]
		s.mu.Unlock()
		return x
	}
	s.mu.Unlock()
	if p.New != nil {
		return p.New()
	}
	return nil
}

func PoolPut(p *sync.Pool, x interface{}) {
	s := cur.Load()
	if s == nil || s.current() == nil {
		p.Put(x)
		return
	}
	s.mu.Lock()
	if s.pools == nil {
		s.pools = map[*sync.Pool][]interface{}{}
	}
	s.pools[p] = append(s.pools[p], x)
	s.mu.Unlock()
}

// ---- allocation guard ----

// AllocLimit (bytes; 0 = off) bounds a single make / reflect.MakeSlice in instrumented code. The
// instrumenter wraps the length and capacity arguments of those calls in AllocGuard. The sandbox has no
// per-process memory limit, and several decoders allocate "declared count x element size" before they
// read a single element: without the guard one hostile count takes the whole machine down. Exceeding
// the limit panics with HugeAlloc, which the harness counts separately and never judges (memory
// exhaustion is not part of any property statement).
var AllocLimit int64

type HugeAlloc struct{ Bytes int64 }

func (h HugeAlloc) Error() string { return fmt.Sprintf("simrt: allocation of %d bytes refused by the guard", h.Bytes) }

type integer interface {
	~int | ~int8 | ~int16 | ~int32 | ~int64 | ~uint | ~uint8 | ~uint16 | ~uint32 | ~uint64 | ~uintptr
}

func AllocGuard[T integer](n T, elemSize int) T {
	if l := AllocLimit; l > 0 && n > 0 {
		if b := int64(n) * int64(elemSize); b > l || b < 0 {
			panic(HugeAlloc{Bytes: b})
		}
	}
	return n
}

// InnermostRepoFunc extracts from a stack trace the innermost function that belongs to the
// repository module (used for stable violation class keys).
func InnermostRepoFunc(stack string) string {
	const mod = "github.com/datastax/go-cassandra-native-protocol/"
	for _, line := range strings.Split(stack, "\n") {
		if strings.HasPrefix(line, mod) && !strings.Contains(line, "/simrt.") {
			fn := strings.TrimPrefix(line, mod)
			if i := strings.LastIndex(fn, "("); i > 0 {
				fn = fn[:i]
			}
			return fn
		}
	}
	return "?"
}

// ---- package-level state of the code under test (generated zz_verif_globals.go files) ----

type globalsEntry struct {
	pkg     string
	snap    func() func()
	restore func()
}

var globals []*globalsEntry

// RegisterGlobals is called from generated init functions: snap copies every package-level variable
// of one package and returns the function that writes the copies back.
func RegisterGlobals(pkg string, snap func() func()) {
	globals = append(globals, &globalsEntry{pkg: pkg, snap: snap})
}

// SnapshotGlobals records the package-level state once (idempotent); RestoreGlobals writes it back.
func SnapshotGlobals() {
	for _, g := range globals {
		if g.restore == nil {
			g.restore = g.snap()
		}
	}
}

func RestoreGlobals() int {
	n := 0
	for _, g := range globals {
		if g.restore != nil {
			g.restore()
			n++
		}
	}
	return n
}
