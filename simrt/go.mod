module verif/simrt

go 1.21
