#!/bin/bash
# Re-runs every stored / candidate seed against the quick check of its property (and extra properties given
# as "P:extra" pairs). usage: tools/seed_regress.sh > log
for pfx in seed seed2; do for p in C03 C04 C05 C07 C09 C10 C15 C16 C18; do for s in A B; do
  d=/tmp/$pfx-$p/$s; [ -f $d/patch.diff ] || continue
  out=/var/tmp/seedlogs/final-$pfx-$p-$s.try
  /verif/tools/try_seed.sh $d/patch.diff $p > $out 2>&1
  echo "$pfx $p-$s: $(grep -c '^VIOLATION' $out) violations $(grep 'exit=' $out | tr '\n' ' ') $(grep -c 'does not apply' $out) noapply | $(grep 'class:' $out | head -2 | tr '\n' ' ' | cut -c1-160)"
done; done; done
