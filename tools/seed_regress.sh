#!/bin/bash
# Re-runs every stored seed (/verif/seeded/<id>/patch.diff) against the quick check of the property it breaks.
# Applies each patch to /repo and ALWAYS restores /repo (never run other checks concurrently).
# usage: tools/seed_regress.sh [id ...]   (default: all)   -> one summary line per seed; exit 1 if any seed is missed
cd /verif || exit 2
ids="$@"; [ -z "$ids" ] && ids=$(ls seeded)
missed=0
for id in $ids; do
  p=$(python3 -c "import json;print(json.load(open('/verif/seeded/$id/meta.json'))['breaks_property'])")
  out=/var/tmp/seedlogs/regress-$id.try; mkdir -p /var/tmp/seedlogs
  /verif/tools/try_seed.sh /verif/seeded/$id/patch.diff $p > $out 2>&1
  v=$(grep -c '^VIOLATION' $out); e=$(grep 'exit=' $out | tr '\n' ' ')
  echo "$id ($p): $v violation line(s) $e $(grep -c 'does not apply' $out | sed 's/^0$//;s/^1$/PATCH-DOES-NOT-APPLY/')"
  grep -q 'exit=1' $out || missed=$((missed+1))
done
echo "missed: $missed"
[ $missed -eq 0 ]
