#!/bin/bash
# usage: tools/verify_seed.sh <seed dir containing patch.diff demo_test.go demo_where.txt>
# Confirms in a scratch worktree: builds, suite passes with the patch, demo fails with and passes without.
d=$(realpath "$1"); wt=$(mktemp -d /tmp/verify-seed-XXXX)
export GOFLAGS=-mod=mod GOPROXY=off GOSUMDB=off GOTOOLCHAIN=local
git -C /repo worktree add -q "$wt" HEAD || exit 2
trap 'git -C /repo worktree remove --force "$wt"' EXIT
cd "$wt"
where=$(cat "$d/demo_where.txt" | tr -d ' \n')
pkg=./$(dirname "$where")
cp "$d/demo_test.go" "$where"
echo "--- demo WITHOUT patch (must pass)"; unshare -rn sh -c "ip link set lo up && go test -count=1 -run . $pkg" 2>&1 | tail -3
rm "$where"
git apply "$d/patch.diff" || { echo "PATCH DOES NOT APPLY"; exit 1; }
echo "--- build + suite WITH patch (must pass)"; go build ./... && unshare -rn sh -c "ip link set lo up && go test -count=1 ./..." 2>&1 | grep -v "no test files" | tail -12
cp "$d/demo_test.go" "$where"
echo "--- demo WITH patch (must fail)"; unshare -rn sh -c "ip link set lo up && go test -count=1 $pkg" 2>&1 | tail -6
