#!/usr/bin/env python3
# Imports wave-4 candidate seeds from /tmp/seed6-<prop>/{A,B} into /verif/seeded/<prop>-K|L (check_run is
# filled in afterwards by tools/update_seed_meta.py from the logs of tools/seed_regress.sh).
import json,os,shutil,re
notes={
 'C05-K':'frames are generated with stream ids at the edges of the version\'s range and -1 (negative ids in v2)',
 'C05-L':'the cut frame of the C05 proxy is also served from *bytes.Reader, *bytes.Buffer and bufio.Reader; re-based on the fix: commit e31e69f (the seekable case had the same defect in the unchanged tree)',
 'C15-K':'C15 exchange: one response per run whose encoded envelope has an exact edge size (131071, 131070, 131066, 131060, 131059, ... bytes)',
 'C15-L':'a timeout/late-answer change seeded for C15; C15 has no fault in it, the C10 check (timeout mode) is the one that sees it, see check_property',
 'C10-K':'C10 generates multi-page responses in every version, not only the DSE ones',
 'C10-L':'C10 paged responses can start with a page of 33-100 KB that is followed at once by small ones',
 'C03-K':'mixed-family reason maps in the notation sweep (the frame generator already mixed them, rarely)',
 'C03-L':'C03 gained a reader mode that skips every other frame with DecodeHeader+DiscardBody',
 'C07-K':'C07 direct family tries twelve "almost right" trailers per payload (byte-swapped, bit-reversed, complemented, CRC without the initial bytes, rotations): each is one burst inside the trailer',
 'C04-K':'C04 value battery decodes decimals also into *string and *float64',
}
initial_miss={'C05-K','C05-L','C15-K','C15-L','C10-K','C10-L','C03-K','C03-L','C07-K','C04-K'}
for p in ['C03','C04','C05','C07','C09','C10','C15','C16','C18']:
    for s,letter in zip("AB","KL"):
        src=f'/tmp/seed6-{p}/{s}'
        if not os.path.exists(src+'/patch.diff'): continue
        key=f'{p}-{letter}'; dst=f'/verif/seeded/{key}'
        os.makedirs(dst,exist_ok=True)
        shutil.copy(src+'/patch.diff',dst+'/patch.diff'); shutil.copy(src+'/demo_test.go',dst+'/demo_test.go')
        where=open(src+'/demo_where.txt').read().strip()
        vp=f'/var/tmp/seedlogs/seed6-{p}-{s}.verify'
        ver=open(vp).read() if os.path.exists(vp) else ''
        meta={'id':key,'breaks_property':p,"wave":6,
          'origin':'written by an independent sub-agent that was given only the property text and a scratch worktree of /repo (nothing from /verif) plus a one-line list of the ideas already used in waves 1 to 5 and of areas not used yet, and asked for changes that need a compound trigger',
          'demo_file_goes_to':where,
          'what_and_what_it_needs_to_manifest':open(src+'/meta.txt').read(),
          'confirmed_by_me':{'how':'tools/verify_seed.sh in a fresh scratch worktree: demo passes without the patch; with the patch `go build ./...` and the full suite pass (client tests in a private network namespace because of their fixed port) and the demo fails',
             'suite_ok_lines':len(re.findall(r'^ok\s',ver,re.M)),'demo_fails_with_patch':'FAIL' in ver.split('demo WITH patch')[-1]},
          'check_run':{},
          'caught_initially':key not in initial_miss}
        if key in notes: meta['strengthening_or_note']=notes[key]
        if key=='C15-L': meta['check_property']='C10'
        json.dump(meta,open(dst+'/meta.json','w'),indent=1)
        print(key, meta['confirmed_by_me'])
