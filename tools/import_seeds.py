#!/usr/bin/env python3
# Imports the candidate seeds from /tmp/seed-*/ and /tmp/seed2-*/ into /verif/seeded/<id>/ using the logs of
# tools/seed_batch.sh (verify) and tools/seed_regress.sh (final try). Wave 2 becomes <prop>-C / <prop>-D.
import json,os,shutil,re,sys
notes={
 'C07-B':'C07 direct family now presents every altered segment twice in a row to the same codec instance',
 'C05-A':'C05 proxy now also reads from bytes.Buffer / bytes.Reader sources that hold several frames back to back',
 'C05-B':'C05 proxy gained a batch mode (decode+convert several frames, encode afterwards); the instrumenter makes sync.Pool deterministic under the scheduler',
 'C10-A':'C10 now generates multi-page responses that overflow MaxPending with slow consumers and long page streams (few stream ids), with a relaxed oracle for the overflowed request',
 'C10-B':'C10 now pushes more events than the event queue holds',
 'C18-B':'C18 gained struct-mapped UDT calls; the race supplement runs its concurrent phase first, on fresh codec instances and a per-iteration reflect.StructOf type (cold caches); a crash of the -race binary is reported',
 'C03-A':'C03/C05 generators now also set the COMPRESSED flag directly on READY/OPTIONS (as the server connection does); C15 caught it before that change',
 'C15-C':'C15 exchange gained a burst mode: all requests are handed to Send before any response is awaited, with large envelopes',
 'C10-D':'C10 requests for paged responses now carry DSE ContinuousPagingOptions (MaxPages 0 = no limit, 16, 1)',
 'C09-D':'C09 wire gained a rare big-N mode: N in 1100..2000 and two bursts of N sends at a stalled peer',
 'C04-C':'C04 reader battery now serves the altered bytes also through *bytes.Buffer, *bytes.Reader and bufio.Reader sources',
 'C07-C':'first caught only by the C18 check (a segment codec shared between tasks); C07 then gained the "shared" scenario: an altered segment arriving in pieces on a codec instance that another task uses for intact segments meanwhile',
 'C07-D':'C07 direct family gained the syndrome scan: every alteration of weight <= 7 for hundreds of real header values through the library checksum function, which does not rely on the checksum being linear',
}
initial_miss={'C07-B','C05-A','C05-B','C10-A','C10-B','C18-B','C03-A','C15-C','C10-D','C09-D','C04-C','C07-C','C07-D'}
out=[]
for pfx,letters in (('seed','AB'),('seed2','CD')):
    for p in ['C03','C04','C05','C07','C09','C10','C15','C16','C18']:
        for s,letter in zip('AB',letters):
            src=f'/tmp/{pfx}-{p}/{s}'
            if not os.path.exists(src+'/patch.diff'): continue
            key=f'{p}-{letter}'; dst=f'/verif/seeded/{key}'
            os.makedirs(dst,exist_ok=True)
            shutil.copy(src+'/patch.diff',dst+'/patch.diff'); shutil.copy(src+'/demo_test.go',dst+'/demo_test.go')
            where=open(src+'/demo_where.txt').read().strip()
            trp=f'/var/tmp/seedlogs/final-{pfx}-{p}-{s}.try'
            tr=open(trp).read() if os.path.exists(trp) else ''
            vp=f'/var/tmp/seedlogs/{pfx}-{p}-{s}.verify' if pfx=='seed2' else f'/var/tmp/seedlogs/{p}-{s}.verify'
            ver=open(vp).read() if os.path.exists(vp) else ''
            classes=sorted(set(re.findall(r'class: (\S+)',tr)))
            vline=re.search(r'vcheck: property.*',tr)
            ex=1 if 'exit=1' in tr else (0 if 'exit=0' in tr else 2)
            meta={'id':key,'breaks_property':p,'wave':1 if pfx=='seed' else 2,
              'origin':'written by an independent sub-agent that was given only the property text and a scratch worktree of /repo (nothing from /verif)'+(' plus a one-line list of the ideas already used in wave 1' if pfx=='seed2' else ''),
              'demo_file_goes_to':where,
              'what_and_what_it_needs_to_manifest':open(src+'/meta.txt').read(),
              'confirmed_by_me':{'how':'tools/verify_seed.sh in a fresh scratch worktree: demo passes without the patch; with the patch `go build ./...` and the full suite pass (client tests in a private network namespace because of their fixed port) and the demo fails',
                 'suite_ok_lines':len(re.findall(r'^ok\s',ver,re.M)),'demo_fails_with_patch':'FAIL' in ver.split('demo WITH patch')[-1]},
              'check_run':{'command':f'git -C /repo apply /verif/seeded/{key}/patch.diff && /verif/check.sh {p} quick ; git -C /repo checkout -- .','exit':ex,
                 'violation_classes':classes or (['race-detector supplement report'] if (p=='C18' and ex==1) else []),'summary_line':vline.group(0) if vline else '',
                 'patch_applies_to_current_repo':'does not apply' not in tr},
              'caught_initially':key not in initial_miss}
            if key in notes: meta['strengthening_or_note']=notes[key]
            json.dump(meta,open(dst+'/meta.json','w'),indent=1)
            out.append((key,ex,meta['confirmed_by_me']['demo_fails_with_patch'],meta['caught_initially']))
for o in out: print(*o)
