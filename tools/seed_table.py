#!/usr/bin/env python3
# Regenerates the table of DESIGN.md §12.7 (between the markers) from seeded/*/meta.json.
import json,os,re
rows=[]; n=0; first=0
for d in sorted(os.listdir('/verif/seeded')):
    m=json.load(open(f'/verif/seeded/{d}/meta.json')); n+=1
    w=[l.strip() for l in m['what_and_what_it_needs_to_manifest'].strip().split('\n') if l.strip()]
    what=w[0][:150]
    if len(what)<40 and len(w)>1: what=(what+' '+w[1])[:150]
    cr=m.get('check_run',{})
    caught='MISSED' if cr.get('exit')!=1 else ('yes' if m.get('caught_initially') else 'after strengthening')
    if m.get('neutralised') and cr.get('exit')!=1: caught='no longer breaks the property (neutralised by a later fix: commit, see meta.json)'
    if m.get('caught_initially'): first+=1
    cl=[c.split('|',1)[1].replace('|','/') if '|' in c else c for c in cr.get('violation_classes',[])][:2]
    rows.append(f"| {d} | {what.replace('|','/')} | {caught} | {', '.join(c[:110] for c in cl)} |")
table='| seed | change (first line of the seeder\'s note) | caught | violation classes reported (first two) |\n|---|---|---|---|\n'+'\n'.join(rows)
p='/verif/DESIGN.md'; s=open(p).read()
b,e='<!-- seed-table-begin -->','<!-- seed-table-end -->'
if b in s:
    s=s[:s.index(b)+len(b)]+'\n'+table+'\n'+s[s.index(e):]
    open(p,'w').write(s)
lessons=['What the misses taught (details in each `meta.json` under `strengthening_or_note`):','']
for d in sorted(os.listdir('/verif/seeded')):
    m=json.load(open(f'/verif/seeded/{d}/meta.json'))
    if not m.get('caught_initially') and m.get('strengthening_or_note'):
        lessons.append(f"* **{d}** — {m['strengthening_or_note']}.")
s=open(p).read()
b,e='<!-- seed-lessons-begin -->','<!-- seed-lessons-end -->'
if b in s:
    s=s[:s.index(b)+len(b)]+'\n'+'\n'.join(lessons)+'\n'+s[s.index(e):]
    open(p,'w').write(s)
print(n,'seeds,',first,'caught initially')
