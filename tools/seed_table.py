#!/usr/bin/env python3
# Regenerates the table of DESIGN.md §12.7 (between the markers) from seeded/*/meta.json.
import json,os,re
rows=[]; n=0; first=0
for d in sorted(os.listdir('/verif/seeded')):
    m=json.load(open(f'/verif/seeded/{d}/meta.json')); n+=1
    w=[l.strip() for l in m['what_and_what_it_needs_to_manifest'].strip().split('\n') if l.strip()]
    what=w[0][:150]
    if len(what)<40 and len(w)>1: what=(what+' '+w[1])[:150]
    cr=m.get('check_run',{})
    caught='MISSED' if cr.get('exit')!=1 else ('yes' if m.get('caught_initially') else 'after strengthening')
    if m.get('neutralised') and cr.get('exit')!=1: caught='no longer breaks the property (neutralised by a later fix: commit, see meta.json)'
    if m.get('caught_initially'): first+=1
    cl=[c.split('|',1)[1].replace('|','/') if '|' in c else c for c in cr.get('violation_classes',[])][:2]
    rows.append(f"| {d} | {what.replace('|','/')} | {caught} | {', '.join(c[:110] for c in cl)} |")
table='| seed | change (first line of the seeder\'s note) | caught | violation classes reported (first two) |\n|---|---|---|---|\n'+'\n'.join(rows)
p='/verif/DESIGN.md'; s=open(p).read()
b,e='<!-- seed-table-begin -->','<!-- seed-table-end -->'
if b in s:
    s=s[:s.index(b)+len(b)]+'\n'+table+'\n'+s[s.index(e):]
    open(p,'w').write(s)
lessons=['What the misses taught (details in each `meta.json` under `strengthening_or_note`):','']
for d in sorted(os.listdir('/verif/seeded')):
    m=json.load(open(f'/verif/seeded/{d}/meta.json'))
    if not m.get('caught_initially') and m.get('strengthening_or_note'):
        lessons.append(f"* **{d}** — {m['strengthening_or_note']}.")
s=open(p).read()
b,e='<!-- seed-lessons-begin -->','<!-- seed-lessons-end -->'
if b in s:
    s=s[:s.index(b)+len(b)]+'\n'+'\n'.join(lessons)+'\n'+s[s.index(e):]
    open(p,'w').write(s)
metas=[json.load(open(f'/verif/seeded/{d}/meta.json')) for d in sorted(os.listdir('/verif/seeded'))]
caught=sum(1 for m in metas if m.get('check_run',{}).get('exit')==1)
neutral=sum(1 for m in metas if m.get('neutralised') and m.get('check_run',{}).get('exit')!=1)
missed=[m['id'] for m in metas if m.get('check_run',{}).get('exit')!=1 and not m.get('neutralised')]
waves=max(m.get('wave',1) for m in metas)
intro=f'''{n} changes were written by independent sub-agents in {waves} waves (nine agents per wave, one per claimed
property, two changes each) that saw only the property text, a scratch worktree of /repo and, from wave 2
on, a one-line list of the changes already used (from wave 4 on also a list of areas not used yet), and
were asked for changes that need a compound trigger. Every one compiles, passes the repository's unedited
suite and comes with a demonstration test that fails with it and passes without it; I re-verified all of
that in a fresh worktree (`tools/verify_seed.sh`) and ran the quick check of the property with the change
applied (`tools/try_seed.sh` on /repo itself at first, later `tools/seed_regress_par.sh` on pristine
copies; /repo is never left modified). {first} were caught by the checks as they stood when the change
arrived, {n-first} were missed at first; each miss led to a strengthening of a scenario, generator or
oracle (never of a threshold), listed below. The table shows the LAST regression run of all stored
changes against the current machinery and the current /repo: {caught} are caught (exit 1 with a
reproduced, minimised violation){', '+str(neutral)+' no longer breaks its property because a later fix: commit repaired the second site it relied on' if neutral else ''}{', and '+str(len(missed))+' are missed: '+', '.join(missed)+' (see the notes after the table)' if missed else ''}. Changes whose patch no longer applied after
a `fix:` commit touched the same lines were re-based (three-way merge, resolved by hand where needed;
`patch.orig.diff` keeps the original). `-A/-B` are wave 1, `-C/-D` wave 2, ... `-K/-L` wave 6.'''
s=open('/verif/DESIGN.md').read()
b,e='<!-- seed-intro-begin -->','<!-- seed-intro-end -->'
if b in s:
    s=s[:s.index(b)+len(b)]+'\n'+intro+'\n'+s[s.index(e):]
    open('/verif/DESIGN.md','w').write(s)
print(n,'seeds,',first,'caught initially,',caught,'caught now, missed:',missed)
