#!/bin/bash
# usage: tools/try_seed.sh <patch.diff> <property> [<property>...]
# Applies a seeded change to /repo, runs the quick checks of the given properties, and ALWAYS restores /repo.
patch=$(realpath "$1"); shift
cd /repo || exit 2
if [ -n "$(git status --porcelain)" ]; then echo "/repo is not clean"; exit 2; fi
trap 'git -C /repo checkout -- . ; git -C /repo clean -fdq' EXIT
git apply "$patch" || { echo "patch does not apply"; exit 2; }
for p in "$@"; do
  echo "=== $p with $(basename $(dirname $patch))/$(basename $patch)"
  /verif/bin/vcheck run "$p" --tier quick 2>&1 | grep -a "VIOLATION\|class:\|vcheck: property\|INFRASTRUCTURE\|KNOWN-FINDING" | cut -c1-260
  echo "exit=${PIPESTATUS[0]}"
done
