#!/usr/bin/env python3
# Imports wave-4 candidate seeds from /tmp/seed5-<prop>/{A,B} into /verif/seeded/<prop>-I|J (check_run is
# filled in afterwards by tools/update_seed_meta.py from the logs of tools/seed_regress.sh).
import json,os,shutil,re
notes={
 'C03-J':'C03 stream: the stream may be cut inside one more frame; a raw frame whose body is shorter than its header declares is a violation',
 'C04-J':'a concurrency defect seeded for C04 (fatal "concurrent map writes" in a struct-field memo): nothing in a sequential decode shows it; it is in reach of the C18 check only (race supplement: fresh struct types per iteration), see check_run',
 'C05-I':'C05 proxy can edit the frame it forwards in mode DecodeFrame>EncodeFrame (adds a warning / custom payload / longer query), the reader must see the edited frame; link B must split into exactly the forwarded frames',
 'C05-J':'C05 proxy gained a source that returns its last bytes together with io.EOF',
 'C07-I':'C07 direct family keeps the payload delivered for the intact segment while altered ones are refused; it must not change',
 'C09-J':'C09 wire gained the overflow mode (DSE page streams longer than MaxPending to requests nobody reads yet, paced senders); re-based on the fix: commits',
 'C15-I':'C15 raw-server scenario: 30 s quiet period with a 5 s read timeout, then one more exchange',
 'C15-J':'C15 exchange: wrong credentials; the client handshake has to fail because the server\'s ERROR response arrived',
 'C18-I':'C18 frames now carry fields beyond 4 KiB and 64 KiB now and then',
}
initial_miss={'C03-J','C04-J','C05-I','C05-J','C07-I','C09-J','C15-I','C15-J','C18-I'}
for p in ['C03','C04','C05','C07','C09','C10','C15','C16','C18']:
    for s,letter in zip("AB","IJ"):
        src=f'/tmp/seed5-{p}/{s}'
        if not os.path.exists(src+'/patch.diff'): continue
        key=f'{p}-{letter}'; dst=f'/verif/seeded/{key}'
        os.makedirs(dst,exist_ok=True)
        shutil.copy(src+'/patch.diff',dst+'/patch.diff'); shutil.copy(src+'/demo_test.go',dst+'/demo_test.go')
        where=open(src+'/demo_where.txt').read().strip()
        vp=f'/var/tmp/seedlogs/seed5-{p}-{s}.verify'
        ver=open(vp).read() if os.path.exists(vp) else ''
        meta={'id':key,'breaks_property':p,"wave":5,
          'origin':'written by an independent sub-agent that was given only the property text and a scratch worktree of /repo (nothing from /verif) plus a one-line list of the ideas already used in waves 1 to 4 and of areas not used yet, and asked for changes that need a compound trigger',
          'demo_file_goes_to':where,
          'what_and_what_it_needs_to_manifest':open(src+'/meta.txt').read(),
          'confirmed_by_me':{'how':'tools/verify_seed.sh in a fresh scratch worktree: demo passes without the patch; with the patch `go build ./...` and the full suite pass (client tests in a private network namespace because of their fixed port) and the demo fails',
             'suite_ok_lines':len(re.findall(r'^ok\s',ver,re.M)),'demo_fails_with_patch':'FAIL' in ver.split('demo WITH patch')[-1]},
          'check_run':{},
          'caught_initially':key not in initial_miss}
        if key in notes: meta['strengthening_or_note']=notes[key]
        if key=='C04-J': meta['check_property']='C18'
        json.dump(meta,open(dst+'/meta.json','w'),indent=1)
        print(key, meta['confirmed_by_me'])
