#!/usr/bin/env python3
# usage: tools/update_seed_meta.py [id ...]: refresh check_run in seeded/<id>/meta.json from /var/tmp/seedlogs/regress-<id>.try
import json,os,re,sys
ids=sys.argv[1:] or sorted(os.listdir('/verif/seeded'))
for key in ids:
    mp=f'/verif/seeded/{key}/meta.json'; trp=f'/var/tmp/seedlogs/regress-{key}.try'
    if not os.path.exists(mp) or not os.path.exists(trp): continue
    meta=json.load(open(mp)); tr=open(trp,errors='replace').read(); p=meta.get('check_property',meta['breaks_property'])
    classes=sorted(set(re.findall(r'class: (\S+)',tr)))
    vline=re.search(r'vcheck: property.*',tr)
    ex=1 if 'exit=1' in tr else (0 if 'exit=0' in tr else 2)
    meta['check_run']={'command':f'git -C /repo apply /verif/seeded/{key}/patch.diff && /verif/check.sh {p} quick ; git -C /repo checkout -- .','exit':ex,
        'violation_classes':classes or (['race-detector supplement report'] if (p=='C18' and ex==1) else []),'summary_line':vline.group(0) if vline else '',
        'patch_applies_to_current_repo':'does not apply' not in tr}
    json.dump(meta,open(mp,'w'),indent=1)
    print(key,ex,len(classes))
