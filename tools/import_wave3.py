#!/usr/bin/env python3
# Imports wave-3 candidate seeds from /tmp/seed3-<prop>/{A,B} into /verif/seeded/<prop>-E|F (check_run is
# filled in afterwards by tools/update_seed_meta.py from the logs of tools/seed_regress.sh).
import json,os,shutil,re
notes={
 'C07-E':'C07 gained the payload syndrome scan (every single flip, pair and burst for full-size payloads via the library checksum function, candidates confirmed by DecodeSegment); the direct scenario now decodes in a task of its own (the change hands half of the checksum to a goroutine, which used to block the scheduler goroutine silently)',
 'C03-E':'C03 writer now attempts unencodable frames (to a scratch destination) between the valid ones',
 'C03-F':'C03 decoder source is now drawn: connection, *bytes.Buffer, *bytes.Reader, bufio.Reader, or one *bytes.Buffer written and read in turns',
 'C04-E':'C04 gained descriptor targets that rebuild valid CRC-24/CRC-32 around every alteration of a segment, reaching the code behind the checksum stage',
 'C05-E':'C05 proxy now also forwards bodies beyond 64 KiB from the (short-reading) link',
 'C05-F':'the frame generator now produces write type CAS from v3 on and VIEW/CDC from v4 on (it had them for OSS v5 only)',
 'C10-E':'C10 gained the timeout mode: short read timeout, caller-chosen stream ids that a sender uses again, answers arriving after the timeout',
 'C18-E':'C18 first use is now drawn: warm instances, fresh instances, or fully cold (no reference pass; package-level state restored before every run)',
 'C18-F':'C18 gained focused runs (one compressor / one codec, more tasks and calls, growing sizes) and a round-trip oracle; the instrumenter now snapshots and restores package-level variables so that every run starts cold',
}
initial_miss={'C07-E','C03-E','C03-F','C04-E','C05-E','C05-F','C10-E','C18-E','C18-F'}
for p in ['C03','C04','C05','C07','C09','C10','C15','C16','C18']:
    for s,letter in zip('AB','EF'):
        src=f'/tmp/seed3-{p}/{s}'
        if not os.path.exists(src+'/patch.diff'): continue
        key=f'{p}-{letter}'; dst=f'/verif/seeded/{key}'
        os.makedirs(dst,exist_ok=True)
        shutil.copy(src+'/patch.diff',dst+'/patch.diff'); shutil.copy(src+'/demo_test.go',dst+'/demo_test.go')
        where=open(src+'/demo_where.txt').read().strip()
        vp=f'/var/tmp/seedlogs/seed3-{p}-{s}.verify'
        ver=open(vp).read() if os.path.exists(vp) else ''
        meta={'id':key,'breaks_property':p,'wave':3,
          'origin':'written by an independent sub-agent that was given only the property text and a scratch worktree of /repo (nothing from /verif) plus a one-line list of the ideas already used in waves 1 and 2, and asked for changes that need a compound trigger',
          'demo_file_goes_to':where,
          'what_and_what_it_needs_to_manifest':open(src+'/meta.txt').read(),
          'confirmed_by_me':{'how':'tools/verify_seed.sh in a fresh scratch worktree: demo passes without the patch; with the patch `go build ./...` and the full suite pass (client tests in a private network namespace because of their fixed port) and the demo fails',
             'suite_ok_lines':len(re.findall(r'^ok\s',ver,re.M)),'demo_fails_with_patch':'FAIL' in ver.split('demo WITH patch')[-1]},
          'check_run':{},
          'caught_initially':key not in initial_miss}
        if key in notes: meta['strengthening_or_note']=notes[key]
        json.dump(meta,open(dst+'/meta.json','w'),indent=1)
        print(key, meta['confirmed_by_me'])
