#!/bin/bash
# usage: tools/dev_try.sh <patch.diff> <property> <cases> [profile] : instrument HEAD+patch in /var/tmp/dev2 and run dev cases (does not touch /repo)
patch=$1; p=$2; n=${3:-1000}; prof=${4:-client}
cd /verif
PATCH=$patch REPO_HEAD=1 REINSTR=1 DEVDIR=/var/tmp/dev2 VERIF_SRC=${VERIF_SRC:-/verif} ./dev.sh $prof 2>&1 | tail -1
PROFILE=$prof DEVDIR=/var/tmp/dev2 ./devrun.sh $p 0 $n 20260923 2>&1 | grep -v "mutated-input\|superlinear" | grep -a '^ "C\|cases' | cut -c1-260
