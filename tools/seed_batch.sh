#!/bin/bash
# usage: tools/seed_batch.sh C05 C09 ...  : verify and try both seeds (A,B) of each property
for p in "$@"; do for s in A B; do
  d=/tmp/${SEEDPFX:-seed}-$p/$s; [ -f $d/patch.diff ] || continue
  /verif/tools/verify_seed.sh $d > /var/tmp/seedlogs/${SEEDPFX:-seed}-$p-$s.verify 2>&1
  /verif/tools/try_seed.sh $d/patch.diff $p > /var/tmp/seedlogs/${SEEDPFX:-seed}-$p-$s.try 2>&1
  echo "$p-$s verify: $(grep -c '^ok' /var/tmp/seedlogs/${SEEDPFX:-seed}-$p-$s.verify) ok lines, demo-with-patch: $(tail -3 /var/tmp/seedlogs/${SEEDPFX:-seed}-$p-$s.verify | grep -c FAIL) FAIL | check: $(grep -c VIOLATION /var/tmp/seedlogs/${SEEDPFX:-seed}-$p-$s.try) violations, $(grep 'exit=' /var/tmp/seedlogs/${SEEDPFX:-seed}-$p-$s.try)"
done; done
