#!/bin/bash
# Parallel variant of seed_regress.sh that never touches /repo: every seed gets its own pristine copy of
# /repo's HEAD with the patch applied (under /var/tmp), and the property's quick check runs on that copy
# through $VERIF_REPO. One stream per property (replay and evidence files are per property), at most $PAR at a time.
# The checks run from a frozen SNAPSHOT of /verif (/var/tmp/verif-snap, taken when
# this script starts), so neither /verif/evidence nor /verif/replays are touched and /verif can be edited meanwhile.
# usage: tools/seed_regress_par.sh [id ...]
cd /verif || exit 2
ids="$@"; [ -z "$ids" ] && ids=$(ls seeded)
PAR=${PAR:-3}
mkdir -p /var/tmp/seedlogs
SNAP=/var/tmp/verif-snap
rsync -a --delete --exclude .git --exclude replays /verif/ $SNAP/
one_prop() {
  p=$1; shift
  for id in "$@"; do
    d=/var/tmp/seedrepo-$id; rm -rf $d; mkdir -p $d
    git -C /repo archive HEAD | tar -x -C $d
    out=/var/tmp/seedlogs/regress-$id.try
    if ! (cd $d && patch -p1 -s < /verif/seeded/$id/patch.diff) > $out 2>&1; then echo "patch does not apply" >> $out; echo "exit=2" >> $out; rm -rf $d; continue; fi
    echo "=== $p with $id" >> $out
    VERIF_REPO=$d $SNAP/bin/vcheck run $p --tier quick 2>&1 | grep -a "VIOLATION\|class:\|vcheck: property\|INFRASTRUCTURE\|KNOWN-FINDING" | cut -c1-260 >> $out
    echo "exit=${PIPESTATUS[0]}" >> $out
    rm -rf $d
    echo "$id ($p): $(grep -c '^VIOLATION' $out) violation line(s) $(grep 'exit=' $out | tr '\n' ' ')"
  done
}
declare -A byprop
for id in $ids; do
  p=$(python3 -c "import json;m=json.load(open('/verif/seeded/$id/meta.json'));print(m.get('check_property',m['breaks_property']))")
  byprop[$p]="${byprop[$p]} $id"
done
n=0
for p in "${!byprop[@]}"; do
  one_prop $p ${byprop[$p]} &
  n=$((n+1)); if [ $((n % PAR)) -eq 0 ]; then wait; fi
done
wait
missed=0
for id in $ids; do grep -q 'exit=1' /var/tmp/seedlogs/regress-$id.try || { if grep -q '"neutralised"' /verif/seeded/$id/meta.json; then echo "not caught, neutralised by a later fix: $id"; else echo "MISSED: $id"; missed=$((missed+1)); fi; }; done
echo "missed: $missed"
[ $missed -eq 0 ]
