#!/usr/bin/env python3
# Imports wave-4 candidate seeds from /tmp/seed4-<prop>/{A,B} into /verif/seeded/<prop>-G|H (check_run is
# filled in afterwards by tools/update_seed_meta.py from the logs of tools/seed_regress.sh).
import json,os,shutil,re
notes={
 'C03-G':'the frame generator now draws string and identifier lengths around powers of two (15..257) now and then',
 'C03-H':'the frame generator gained a vocabulary mode (a quarter of the frames take all identifiers from four words and favour RESULT Rows/Prepared with UDT columns), so that the same type names recur with different definitions within one run',
 'C04-G':'C04 live: the hostile peer now also starts multi-segment frames (non-self-contained segment, valid checksums) whose header declares an extreme body length',
 'C04-H':'C04 live: stall mode - the peer delivers part of a frame and then neither sends nor leaves; a server connection with a 2 s idle timeout has to end by itself',
 'C05-G':'C05 proxy: writer, proxy and reader share one codec instance in 30 % of the runs (a write that blocks half-way on a small link lets another task use the codec meanwhile)',
 'C09-G':'C09 gained the mixed mode (managed ids plus caller-chosen ids above N on one handler / connection); doing so exposed a genuine leak of the same kind in /repo, repaired by a fix: commit, and the seed was re-based on it',
 'C09-H':'C09 wire gained the timeout mode: held-back answers arrive after the request has failed; all ids must be assignable again once the late answers are in',
 'C10-H':'C10 timeout mode now has responses that last longer than the read timeout while no gap does, and an oracle that tells a legitimate timeout (a silence of the read timeout, measured on the peer side) from a spurious one; re-based on the C09 fix: commit',
 'C15-G':'C15 raw-client scenario gained the handler-only server mode (handshake handler + echo handler, nobody calls Receive) with more frames over the connection lifetime than MaxInFlight, sent in windows',
 'C15-H':'C15 exchange: one more request whose answer has arrived before the connection ends (client close, server close, context cancel) and is only asked for afterwards',
 'C18-G':'C18 gained nested type descriptors (depth 1-10) written and read through the datatype package, also as a focus family',
 'C18-H':'C18 value codecs now also decode lists, sets and maps into interface{} destinations (compared by content), mixed under focus',
}
initial_miss={'C03-G','C03-H','C04-G','C04-H','C05-G','C09-G','C09-H','C10-H','C15-G','C15-H','C18-G','C18-H'}
for p in ['C03','C04','C05','C07','C09','C10','C15','C16','C18']:
    for s,letter in zip("AB","GH"):
        src=f'/tmp/seed4-{p}/{s}'
        if not os.path.exists(src+'/patch.diff'): continue
        key=f'{p}-{letter}'; dst=f'/verif/seeded/{key}'
        os.makedirs(dst,exist_ok=True)
        shutil.copy(src+'/patch.diff',dst+'/patch.diff'); shutil.copy(src+'/demo_test.go',dst+'/demo_test.go')
        where=open(src+'/demo_where.txt').read().strip()
        vp=f'/var/tmp/seedlogs/seed4-{p}-{s}.verify'
        ver=open(vp).read() if os.path.exists(vp) else ''
        meta={'id':key,'breaks_property':p,'wave':4,
          'origin':'written by an independent sub-agent that was given only the property text and a scratch worktree of /repo (nothing from /verif) plus a one-line list of the ideas already used in waves 1 to 3 and of areas not used yet, and asked for changes that need a compound trigger',
          'demo_file_goes_to':where,
          'what_and_what_it_needs_to_manifest':open(src+'/meta.txt').read(),
          'confirmed_by_me':{'how':'tools/verify_seed.sh in a fresh scratch worktree: demo passes without the patch; with the patch `go build ./...` and the full suite pass (client tests in a private network namespace because of their fixed port) and the demo fails',
             'suite_ok_lines':len(re.findall(r'^ok\s',ver,re.M)),'demo_fails_with_patch':'FAIL' in ver.split('demo WITH patch')[-1]},
          'check_run':{},
          'caught_initially':key not in initial_miss}
        if key in notes: meta['strengthening_or_note']=notes[key]
        json.dump(meta,open(dst+'/meta.json','w'),indent=1)
        print(key, meta['confirmed_by_me'])
