#!/bin/bash
# dev helper: prepare an instrumented scratch under /var/tmp/dev and build the worker binary
set -e
export GOFLAGS=-mod=mod GOPROXY=off GOSUMDB=off GOTOOLCHAIN=local
D=/var/tmp/dev
PROFILE=${1:-client}
mkdir -p $D
if [ ! -d $D/repo-$PROFILE ] || [ -n "$REINSTR" ]; then
  rm -rf $D/repo-$PROFILE; mkdir -p $D/repo-$PROFILE
  (cd /repo && git ls-files -z | rsync -a --files-from=- --from0 . $D/repo-$PROFILE/)
  if [ $PROFILE = client ]; then
    /verif/bin/vinstr -root $D/repo-$PROFILE -maponly primitive,message,datatype,frame,segment,datacodec,compression/lz4,compression/snappy,crc -yield client -shim
  else
    /verif/bin/vinstr -root $D/repo-$PROFILE -maponly client -yield primitive,message,datatype,frame,segment,datacodec,compression/lz4,compression/snappy,crc -shim
  fi
  (cd $D/repo-$PROFILE && sed -i 's/^go 1.17$/go 1.21/' go.mod && printf '\nrequire verif/simrt v0.0.0\nreplace verif/simrt => ../simrt\n' >> go.mod)
fi
rm -rf $D/repo; ln -s $D/repo-$PROFILE $D/repo
rsync -a --delete /verif/simrt/ $D/simrt/
rsync -a --delete /verif/harness/ $D/harness/
cat /repo/go.sum /verif/harness/go.sum.extra > $D/harness/go.sum
cd $D/harness && go1.26.8 test -tags verif -c -o $D/worker-$PROFILE.test ./sim
echo built $D/worker-$PROFILE.test
