#!/bin/bash
# dev helper: prepare an instrumented scratch under /var/tmp/dev and build the worker binary
set -e
export GOFLAGS=-mod=mod GOPROXY=off GOSUMDB=off GOTOOLCHAIN=local
V=${VERIF_SRC:-/verif}
D=${DEVDIR:-/var/tmp/dev}
PROFILE=${1:-client}
mkdir -p $D
if [ ! -d $D/repo-$PROFILE ] || [ -n "$REINSTR" ]; then
  rm -rf $D/repo-$PROFILE; mkdir -p $D/repo-$PROFILE
  if [ -n "$REPO_HEAD" ]; then (cd /repo && git archive HEAD | tar -x -C $D/repo-$PROFILE); else
  (cd /repo && git ls-files -z | rsync -a --files-from=- --from0 . $D/repo-$PROFILE/)
  fi
  if [ -n "$PATCH" ]; then (cd $D/repo-$PROFILE && patch -p1 -s < $PATCH); fi
  if [ $PROFILE = client ]; then
    $V/bin/vinstr -root $D/repo-$PROFILE -maponly primitive,message,datatype,frame,segment,datacodec,compression/lz4,compression/snappy,crc -yield client -shim
  else
    $V/bin/vinstr -root $D/repo-$PROFILE -maponly client -yield primitive,message,datatype,frame,segment,datacodec,compression/lz4,compression/snappy,crc -shim
  fi
  (cd $D/repo-$PROFILE && sed -i 's/^go 1.17$/go 1.21/' go.mod && printf '\nrequire verif/simrt v0.0.0\nreplace verif/simrt => ../simrt\n' >> go.mod)
fi
rm -rf $D/repo; ln -s $D/repo-$PROFILE $D/repo
rsync -a --delete $V/simrt/ $D/simrt/
rsync -a --delete $V/harness/ $D/harness/
cat /repo/go.sum $V/harness/go.sum.extra > $D/harness/go.sum
cd $D/harness && go1.26.8 test -tags verif -c -o $D/worker-$PROFILE.test ./sim
echo built $D/worker-$PROFILE.test
