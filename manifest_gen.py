#!/usr/bin/env python3
# Regenerates MANIFEST.json. Edit CLAIMED / NA here, never the JSON by hand.
import json
NA = {
 "C01":"pure function of (frame, version, compressor): no schedule, clock, stream fault or second party in statement or quantifier; deterministic simulation has nothing to decide (DESIGN.md §5)",
 "C02":"byte-for-byte comparison with an independent encoder is translation validation over inputs; no schedule, clock, fault or second party",
 "C06":"pure function of (payload, flag, compressor) against an independent implementation; no schedule or fault",
 "C08":"pure function of the byte string",
 "C11":"datacodec Encode/Decode map a value to []byte and back; no stream, schedule, clock or fault",
 "C12":"pure, specification oracle over inputs",
 "C13":"pure numeric conversions over inputs",
 "C14":"pure, nil handling over inputs",
 "C17":"reflective aliasing walk over values; no schedule, stream or fault",
 "C19":"whole-domain enumeration of pure predicates",
 "C20":"single-caller call sequences on one value; no schedule, clock, stream, fault or second party",
}
PENDING = {
}
TECH = "deterministic simulation with fault injection"
CLAIMED = {
 "C04": dict(cat="exploration",
   text="fault clause of the property only: valid encodings produced by the library are altered the way a faulty transport or a flipped stored byte alters them and (a) arrive at live client/server connections from a hostile raw peer inside the simulator, (b) are served to every decoding entry point through a short-reading, failing reader; for encodings up to 320 bytes every single-bit flip, every 2/4-byte position x special value and every truncation is tried; oracle: no panic, every call returns within a real-time watchdog, nothing stays blocked after the peer left",
   ref="DESIGN.md §5 C04",
   note="'all byte strings' is not claimed, only alterations of valid encodings; single allocations above 64 MiB requested by hostile counts are refused by an allocation guard in the instrumented copy and not judged (memory exhaustion is not in the statement; the sandbox has no per-process memory limit); part (b) runs the decoders without the scheduler (nothing to interleave)",
   tech=TECH+" (hostile peer and in-flight corruption against live connections; faulty-reader fault enumeration over every decoding entry point)"),
 "C03": dict(cat="exploration",
   text="writer and reader tasks over a simulated connection with back-pressure, latency and short reads: 1-40 generated frames of every kind written back-to-back and decoded until EOF by three decoding routes; declared lengths checked against the tapped bytes, an independent splitter by declared length, exact consumption at every frame boundary, and no party left waiting for bytes that never come",
   ref="DESIGN.md §5 C03",
   note="sampled frames, delivery schedules, decoder source types, cut streams and refused frames in between; the per-notation LengthOf*/Write*/Read* clause is a pure function of its input and is covered by a direct boundary sweep (scenario notations: every vint magnitude class, lengths around powers of two), a supplement with no scheduling or fault in it, labelled as such in the evidence",
   tech=TECH+" (writer/reader tasks over a simulated byte stream with seeded chunking and back-pressure; wire-tap length oracle)"),
 "C05": dict(cat="exploration",
   text="a proxy task between two simulated links forwards generated frames with each of the partial operations a proxy uses, from non-seekable and seekable sources; exact consumption, agreement of both decoding routes and end-to-end equality are checked; the re-encode clause is checked on valid and on mutated-in-transit encodings",
   ref="DESIGN.md §5 C05",
   note="sampled frames, operations and mutations; v5 frames travel as plain envelopes (a proxy of segments is out of scope); three known findings cover the re-encode clause on mutated input only",
   tech=TECH+" (proxy task between two simulated links, seeded delivery and in-transit mutation; consumption and equality oracles)"),
 "C18": dict(cat="exploration",
   text="2-6 tasks make calls on shared codec instances (frame, raw, segment, compressors, datacodec singletons and composite codecs) with every statement of the codec packages a seeded scheduling point; each result must equal the sequential result (first use drawn: warm instances, fresh instances, or cold package state restored before every run; focused runs on one codec family). The data-race clause is covered by a supplementary -race run with real goroutines, labelled non-deterministic in the evidence",
   ref="DESIGN.md §5 C18",
   note="sampled interleavings at statement granularity (not memory-access granularity); vendored lz4/snappy run atomically between yields; the race-detector supplement observes executions it does not control, so its replay is best-effort",
   tech=TECH+" (statement-level seeded interleaving of tasks on shared codec instances, result equality with sequential passes; plus race-detector stress as labelled supplement)"),
 "C15": dict(cat="exploration",
   text="seeded fault-free sessions between the real client and the real server (generated frames of every kind, all versions x compressions x auth) and between each of them and an independent raw peer that chooses the v5 segmentation; equality of what was sent and received in both directions and a specification-level wire oracle on the tapped bytes",
   ref="DESIGN.md §5 C15",
   note="sampled frames, schedules and segmentations; the independent codec (refwire) covers headers, v5 segments with both checksums and a dozen message bodies; TLS not exercised",
   tech=TECH+" (seeded schedules and delivery chunking over a simulated network; independent raw peer; wire oracle over the tapped bytes)"),
 "C07": dict(cat="fault_enumeration",
   text="segments encoded by the real codec are altered in transit inside the checksums' guaranteed detection range and given to the real decoder: header+CRC-24 patterns enumerated exhaustively up to weight 4 (quick) / 7 (thorough) for both header sizes, payload+CRC-32 single flips exhaustively for payloads up to 4 KiB, pairs and bursts enumerated or sampled as listed in the evidence; plus seeded live v5 sessions over the simulated network with one segment corrupted in transit (nothing from it may be delivered, the receiver must close)",
   ref="DESIGN.md §5 C07",
   note="exhaustive only for the sub-spaces the evidence lists under enumerated_subspaces; alterations outside the guaranteed range are not injected; the direct family calls DecodeSegment without the scheduler (there is nothing to interleave), the live family runs under the full simulator",
   tech=TECH+" (bit-flip fault enumeration on segments in transit; live-connection corruption with delivery oracle)"),
 "C10": dict(cat="exploration",
   text="seeded fault-free sessions on a real client connection with 1-8 concurrent senders; the peer answers in drawn permutations with gaps, multi-page responses (also overflowing MaxPending, slower than the read timeout as a whole, or with a large first page), interleaved events and spurious responses; a timeout mode with caller-chosen ids reused and answers arriving after the timeout; exactly-once, in-order routing checked over the recorded history",
   ref="DESIGN.md §5 C10",
   note="sampled schedules and response orders; peer is the repository's own server connection driven by harness tasks (a raw refwire peer is added where available); tags inside frames make every response attributable",
   tech=TECH+" (seeded interleavings + permuting peer; exactly-once routing oracle over the recorded history)"),
 "C16": dict(cat="fault_enumeration",
   text="seeded sessions of real client and server connections over a simulated network; one or two crash points (close/cancel/reset/EOF/I-O error/stall) injected at drawn scheduler steps of the same seeded session; oracles at quiescence on the fake clock (requests complete, callers return, sends refused after close, no panic, no goroutine left)",
   ref="DESIGN.md §5 C16",
   note="sampled schedules and fault points, not a proof; scheduling points are statement boundaries of package client; TLS not exercised; trusted: vinstr rewriting, synctest, sim/net.go",
   tech=TECH+" (seeded scheduler + crash-point injection at scheduler steps, invariant and quiescence oracles)"),
 "C09": dict(cat="exploration",
   text="seeded concurrent histories on the real in-flight handler, interleaved at statement granularity; each recorded history checked for linearizability against the sequential stream-id model (porcupine), plus no-blocking and id-recycling checks at quiescent checkpoints",
   ref="DESIGN.md §5 C09",
   note="sampled interleavings; porcupine 'Unknown' is inconclusive and never reported; handler reached through the generated export shim; managed and explicit ids are not mixed within one history",
   tech=TECH+" (seeded interleavings of concurrent senders/deliverer; linearizability check of the recorded history with porcupine)"),
}
checks=[]
for pid in sorted(CLAIMED):
    c=CLAIMED[pid]
    checks.append({"property_id":pid,"quick_cmd":f"/verif/check.sh {pid} quick","thorough_cmd":f"/verif/check.sh {pid} thorough",
      "evidence_file":f"/verif/evidence/{pid}.json","replay_cmd_template":"/verif/bin/vcheck replay {path}","engine":"vcheck",
      "level_claimed":{"category":c["cat"],"text":c["text"],"design_ref":c["ref"]},"level_note":c["note"],"technique":c["tech"]})
na={**NA,**{k:v for k,v in PENDING.items() if k not in CLAIMED}}
m={"version":1,"setup_cmd":"/verif/setup.sh",
 "hooks":{"guard":"verif",
  "enable":"no hook commits in /repo: every check copies /repo's working tree to a scratch directory, rewrites the copy with /verif/bin/vinstr (yields, go/lock/select/map-range rewrites, net seams, generated export shim client/zz_verif_shim.go carrying //go:build verif) and builds it with -tags verif",
  "baseline_off_cmd":"cd /repo && go test -mod=mod -json -vet=off -count=1 -timeout 25m ./...",
  "source_commits":[],"add_only":True},
 "engines":[{"name":"vcheck","path":"/verif/bin/vcheck","serves_properties":sorted(CLAIMED),
   "kind_free_text":"deterministic simulation with fault injection: AST-instrumented copy of the repository run under a seeded baton scheduler inside a go1.26.8 testing/synctest bubble, simulated TCP with fault injector, choice tape with replay and shrinking"}],
 "checks":checks,
 "not_applicable":[{"property_id":k,"reason":v} for k,v in sorted(na.items())],
 "notes":"see DESIGN.md; genuine defects found are listed in known_findings.txt (fixed: lines = repaired in /repo by fix: commits; JSON lines = recorded known findings)"}
json.dump(m,open('/verif/MANIFEST.json','w'),indent=1)
print("claimed",sorted(CLAIMED),"na",sorted(na))
