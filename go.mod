module verif

go 1.26.8
