#!/bin/bash
# usage: check.sh <property> <quick|thorough>
cd "$(dirname "$(readlink -f "$0")")"
exec ./bin/vcheck run "$1" --tier "${2:-quick}"
