#!/bin/bash
# usage: check.sh <property> <quick|thorough>
cd /verif
exec ./bin/vcheck run "$1" --tier "${2:-quick}"
