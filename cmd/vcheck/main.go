// vcheck is the driver of every check (DESIGN.md §8): it snapshots /repo's working tree into a
// scratch directory, instruments it, builds the worker binary, runs worker processes, aggregates
// their results, confirms and records violations, writes the evidence file and sets the exit code.
//
//	vcheck run <property> [--tier quick|thorough]
//	vcheck replay <file>
//	vcheck selftest [--props C16,C09]
//	vcheck prepare <dir> [client|codecs]
//
// exit 0: property held on everything explored; 1: VIOLATION printed; 2: infrastructure trouble.
package main

import (
	"bufio"
	"crypto/sha256"
	"encoding/json"
	"fmt"
	"io"
	"os"
	"os/exec"
	"path/filepath"
	"sort"
	"strconv"
	"strings"
	"sync"
	"time"
)

const goBin = "go1.26.8"

// repoDir is the tree under test: /repo's current working tree. $VERIF_REPO overrides it for
// development runs only (background exploration of a pristine copy while seeded changes are being
// applied to /repo); the registered commands never set it.
var repoDir = func() string {
	if v := os.Getenv("VERIF_REPO"); v != "" {
		return v
	}
	return "/repo"
}()

// verifDir is the root of the verification tree: the parent of the directory holding this binary
// (so that a snapshot of /verif elsewhere works on its own files), or $VERIF_DIR.
var verifDir = func() string {
	if d := os.Getenv("VERIF_DIR"); d != "" {
		return d
	}
	if exe, err := os.Executable(); err == nil {
		if real, err := filepath.EvalSymlinks(exe); err == nil {
			return filepath.Dir(filepath.Dir(real))
		}
	}
	return "/verif"
}()

type propCfg struct {
	Profile       string
	QuickCases    int
	ThoroughCases int
	QuickSecs     int // wall-clock cap for the worker phase
	ThoroughSecs  int
	Level         string
	Rule          string
	Assumptions   []string
	RealVsStub    string
}

var commonAssumptions = []string{
	"AST instrumentation (cmd/vinstr) preserves semantics: the repository's own suite passes on the instrumented copy",
	"scheduling points are statement boundaries of instrumented packages; vendored lz4/snappy, zerolog and the Go runtime run atomically between them",
	"simulated TCP (sim/net.go) delivers bytes in order without loss or duplication on an intact connection",
	"go1.26.8 testing/synctest fake clock and quiescence detection",
}

const realVsStub = "real: client, frame, segment, message, primitive, datatype, compression, crc packages (instrumented copy of the working tree), Go channels/mutexes/contexts/timers; stub: TCP (sim/net.go), clock (synctest), OS scheduler (seeded baton), logging (zerolog disabled)"

var cfgs = map[string]*propCfg{
	"C04": {Profile: "client", QuickCases: 48, ThoroughCases: 4000, QuickSecs: 140, ThoroughSecs: 2400, Level: "exploration",
		Rule: "case = (a) one seeded live session inside the simulator: a real client or server connection (all versions, compressions) against a hostile raw peer that, after a valid handshake, sends valid encodings of generated frames altered in flight (bit flip, overwritten 2/4-byte field, truncation, duplicated/removed range), in v5 wrapped in segments with valid checksums so that they reach the frame decoder, or hostile segments; then the peer leaves; (b) a batch of ~60 (entry point, valid encoding) targets covering frame/raw frame/header/body/raw body/discard, every message codec, ReadDataType, primitive Read*, DecodeSegment (also through a descriptor target that rebuilds valid CRC-24/CRC-32 around every alteration, so that declared lengths and compressed payloads behind the checksum stage are reached), both decompressors in both formats and datacodec Decode for scalar and composite CQL types x destination kinds; for encodings up to 320 bytes EVERY single-bit flip, every 2- and 4-byte position overwritten with each special value (-1, -2, 0, 1, 0x7f.., 0x80.., 64 MiB, 2 GiB on one shard) and every truncation is tried, larger encodings are sampled; plus duplicated/deleted ranges, garbage and readers that short-read and fail at an offset. Oracle: no panic, every call returns within the watchdog, nothing stays blocked after the peer left. evaluations = simulated runs + direct decoder calls; distinct_nontrivial = distinct live-run fingerprints (the enumerated direct alterations are pairwise distinct by construction but are reported separately under counters)",
		Assumptions: []string{"input space 'all byte strings' is not claimed: only alterations of valid encodings (the property's own fault vocabulary); out-of-memory is not in the property statement: 2 GiB declared lengths are injected on one worker only"}},
	"C03": {Profile: "client", QuickCases: 4800, ThoroughCases: 150000, QuickSecs: 120, ThoroughSecs: 1800, Level: "exploration",
		Rule: "case = 1-40 generated version-valid frames of every message kind (all versions, body compression none/LZ4/Snappy, every header-flag combination incl. tracing requested on requests, up to 300 KiB) encoded back-to-back by a writer task straight onto a simulated connection with drawn capacity (1 B..1 MiB back-pressure), latency and read chunking, and decoded by a reader task with DecodeFrame, DecodeRawFrame+Convert or DecodeHeader+DecodeBody until EOF; the decoder's source is drawn: the connection, a *bytes.Buffer or *bytes.Reader holding the whole stream, a bufio.Reader over the connection, or one *bytes.Buffer written and read in turns; in a third of the cases the writer also attempts unencodable frames (to a scratch destination) between the valid ones. Oracles: wire bytes per frame = header + BodyLength left in the frame = length in the header on the wire; an independent splitter by declared lengths (refwire) finds exactly the encoder's frames; decoded sequence equals sent sequence; the reader has consumed exactly up to each frame boundary; nobody waits for bytes that never come; EncodedLength of each message equals the bytes its encoder writes. distinct = distinct event-log fingerprints; non-trivial = at least two frames decoded",
		Assumptions: []string{"the per-notation LengthOf*/Write*/Read* clause is a pure function of its input: it is covered by a direct sweep (scenario \"notations\", every 64th case: all vint magnitude classes 2^k-1, 2^k, 2^k+1 of both signs, lengths around every power of two up to 65535 for the length-prefixed notations, drawn collections, both address families; counted under probes.notation_triples_checked), which is a supplement without any scheduling or fault in it, and otherwise as far as generated frames exercise the notations"}},
	"C05": {Profile: "client", QuickCases: 1920, ThoroughCases: 100000, QuickSecs: 120, ThoroughSecs: 1800, Level: "exploration",
		Rule: "case = (1) writer -> link A -> proxy task -> link B -> reader with 1-24 generated frames (versions, compressions); the proxy forwards each frame with a drawn partial operation (DecodeRawFrame>EncodeRawFrame, DecodeHeader+DecodeRawBody, raw>frame>raw conversion, DecodeHeader+DecodeBody>EncodeBody+EncodeHeader, DecodeFrame>EncodeFrame, DecodeHeader+DiscardBody) from the non-seekable link or from a seekable buffer (bodies up to 250 KB on links that are not tiny); oracles: exact consumption after every operation, both decoding routes agree on the tapped bytes, reader receives exactly the forwarded frames equal to what was written; (2) re-encode clause: valid and mutated (bit flips, overwritten 2/4-byte fields) encodings that still decode are re-encoded and must decode to an equal frame. distinct = distinct event-log fingerprints; non-trivial = at least one frame forwarded / decoded"},
	"C18": {Profile: "codecs", QuickCases: 9600, ThoroughCases: 120000, QuickSecs: 120, ThoroughSecs: 1800, Level: "exploration",
		Rule: "case = 2-6 tasks making 1-7 groups of calls each on SHARED instances (frame codecs with no/LZ4/Snappy compressor incl. raw decoding and conversion, segment codecs without/with LZ4, both compressors in both formats, the datacodec package singletons and shared list/set/map/tuple codecs) with generated frames, payloads and values; every statement of the codec packages is a scheduling point and the interleaving is drawn from the tape. 40% of the cases are focused on one family (one frame codec, one segment codec, one compressor, the value codecs) with more tasks and optionally growing payload sizes. First use is drawn: instances warmed by a sequential pass, fresh instances (reference pass on twins), or no reference pass at all so that instances AND package-level state are cold when the tasks start (package-level variables of the code under test are restored to their post-initialisation values before every run). Oracle: each call's result (bytes, decoded frame/value or error text; compress/decompress must round-trip) equals the result of the same call in a sequential pass, and a sequential pass after the concurrent phase still agrees. distinct = distinct event-log fingerprints; non-trivial = the concurrent phase contained at least one switch between tasks that were both inside repository code",
		Assumptions: []string{"the data-race clause is checked by a supplementary, non-deterministic run of the same workload on the un-instrumented tree under the Go race detector (labelled in the evidence); the deterministic scheduler cannot observe races that never change a result"}},
	"C15": {Profile: "client", QuickCases: 1600, ThoroughCases: 60000, QuickSecs: 120, ThoroughSecs: 1800, Level: "exploration",
		Rule: "case = three seeded fault-free sessions (version, compression, auth, link capacity/latency/chunking and schedule drawn): (1) real client <-> real server exchanging generated version-valid frames of every message kind (framegen), compared after normalisation in both directions, with both wire taps parsed by the independent refwire codec (unframed handshake, then valid v5 segments, envelopes not individually compressed); (2) a raw refwire client against the real server and (3) a raw refwire server against the real client, packing several envelopes into one segment and splitting envelopes (up to ~400 KiB) over non-self-contained segments at drawn points. distinct = distinct event-log fingerprints; non-trivial = at least one frame delivered and at least one switch between tasks inside repository code",
		Assumptions: []string{"the raw peer spells the COMPRESSION option as the library's client does (upper case) and puts at least the 9-byte envelope header into the first part of a split envelope", "frames are generated version-valid by harness/sim/framegen.go, under-approximating validity"}},
	"C07": {Profile: "client", QuickCases: 480, ThoroughCases: 20000, QuickSecs: 120, ThoroughSecs: 2400, Level: "fault_enumeration",
		Rule: "direct family: a segment encoded by the real codec (no compressor / LZ4, several payload classes, both flag values) is altered inside the checksums' guaranteed range and handed to the real DecodeSegment; enumerated sub-spaces are listed under enumerated_subspaces (quick: every header+CRC24 pattern of weight 1..4 over 48 and 64 bits, weights 5..7 sampled; thorough: every pattern of weight 1..7 for 3 seeded header values per header size; all single flips of payload+CRC32 for payloads up to 4 KiB, all pairs for tiny payloads, sampled pairs and bursts of 1..32 bits at every offset otherwise). live family: a seeded v5 session between real client and server over the simulated network is run fault-free and then re-run with one segment of one direction corrupted in transit (1..7 header bits, 1-2 payload bits, or a burst). evaluations = simulated runs + direct alterations evaluated; distinct_nontrivial = distinct event-log fingerprints of live runs in which the corruption fired + enumerated (hence pairwise distinct) direct alterations whose control decode succeeded",
		Assumptions: []string{"CRC parameters of the independent checker (refwire) follow Cassandra's Crc.java; alterations outside the guaranteed detection range are never injected"}},
	"C10": {Profile: "client", QuickCases: 2400, ThoroughCases: 150000, QuickSecs: 100, ThoroughSecs: 1500, Level: "exploration",
		Rule: "case = one seeded fault-free session on a real client connection (version, compression, limits, link all drawn): 1-8 concurrent senders x 1-5 tagged requests; the peer holds requests back and answers in a drawn permutation with drawn gaps, multi-page (DSE continuous paging) responses of 1..MaxPending pages, interleaved events and responses for stream ids that are not in flight; consumers read at a drawn pace. Oracle over the recorded history: every response sent is received exactly once, by the request with its tag, pages in order, request completed on the last page; events exactly once on the event channel and per handler. distinct = distinct event-log fingerprints; non-trivial = at least two requests accepted and at least one switch between tasks inside repository code"},
	"C09": {Profile: "client", QuickCases: 6400, ThoroughCases: 400000, QuickSecs: 100, ThoroughSecs: 1500, Level: "exploration",
		Rule: "case = one seeded concurrent history on the real in-flight request handler (N, managed ids, explicit ids, or both mixed with the explicit ones above N; 1-4 senders, a deliverer issuing final/non-final/unknown-id responses, optional concurrent close; interleaved at statement granularity), checked (1) for linearizability against the sequential stream-id model with porcupine, (2) for operations that block, (3) for id recycling at the final quiescent checkpoint; every fourth case additionally runs a live connection against a raw server that checks the ids on the wire (range, uniqueness among unanswered requests, at most N unanswered), with held-back answers, optionally a short read timeout so that answers arrive after their request failed, optionally mixed explicit ids, rarely a burst of N>1000 sends at a stalled peer, and a final checkpoint where N new sends must be accepted and one more refused. distinct = distinct event-log fingerprints; non-trivial = at least two operations of different clients overlapped in the history",
		Assumptions: []string{"handler reached through a generated export shim (client/zz_verif_shim.go); managed and explicit ids are mixed on one handler only with explicit ids above N: an explicit id inside 1..N on a handler that also assigns ids itself collides by construction, which the API documents as not recommended"}},
	"C16": {Profile: "client", QuickCases: 640, ThoroughCases: 24000, QuickSecs: 100, ThoroughSecs: 1500, Level: "fault_enumeration",
		Rule: "case = one seeded session (version, auth, limits, timeouts, link, senders, response plans, schedule strategy all drawn from the tape) run fault-free, then re-run with the same seed and one or two crash points (fault kind x scheduler step) drawn uniformly over the session's steps; thorough additionally enumerates every step boundary x fault kind for fixed sessions. distinct = distinct event-log fingerprints (hash of every scheduling decision and harness event); non-trivial = at least one task switch between two tasks that were both inside repository code and at least one request was attempted"},
}

type knownFinding struct {
	Property string `json:"property"`
	ClassKey string `json:"class_key"`
	What     string `json:"what"`
	Replay   string `json:"replay,omitempty"`
}

func loadKnown() (map[string]knownFinding, error) {
	out := map[string]knownFinding{}
	f, err := os.Open(filepath.Join(verifDir, "known_findings.txt"))
	if err != nil {
		if os.IsNotExist(err) {
			return out, nil
		}
		return nil, err
	}
	defer f.Close()
	sc := bufio.NewScanner(f)
	sc.Buffer(make([]byte, 1<<20), 1<<20)
	for sc.Scan() {
		line := strings.TrimSpace(sc.Text())
		if line == "" || strings.HasPrefix(line, "#") || strings.HasPrefix(line, "fixed:") {
			continue
		}
		var k knownFinding
		if err := json.Unmarshal([]byte(line), &k); err != nil {
			return nil, fmt.Errorf("known_findings.txt: %v", err)
		}
		out[k.ClassKey] = k
	}
	return out, sc.Err()
}

func env() []string {
	e := os.Environ()
	e = append(e, "GOFLAGS=-mod=mod", "GOPROXY=off", "GOSUMDB=off", "GOTOOLCHAIN=local", "GONOSUMDB=*", "GONOSUMCHECK=1", "GOFLAGS=-mod=mod")
	return e
}

func run(dir string, extraEnv []string, name string, args ...string) (string, error) {
	cmd := exec.Command(name, args...)
	cmd.Dir = dir
	cmd.Env = append(env(), extraEnv...)
	out, err := cmd.CombinedOutput()
	return string(out), err
}

func infra(format string, a ...interface{}) {
	fmt.Fprintf(os.Stderr, "vcheck: INFRASTRUCTURE: "+format+"\n", a...)
	os.Exit(2)
}

func copyTree(src, dst string, exclude ...string) error {
	args := []string{"-a", "--delete"}
	for _, e := range exclude {
		args = append(args, "--exclude", e)
	}
	args = append(args, src+"/", dst+"/")
	out, err := run("/", nil, "rsync", args...)
	if err != nil {
		return fmt.Errorf("rsync: %v: %s", err, out)
	}
	return nil
}

const codecPkgs = "primitive,message,datatype,frame,segment,datacodec,compression/lz4,compression/snappy,crc"

// prepare builds scratch/{repo,simrt,harness,worker.test} from /repo's current working tree.
func prepare(scratch, profile string) (treeHash string, instrStats map[string]interface{}) {
	start := time.Now()
	repo := filepath.Join(scratch, "repo")
	if err := os.MkdirAll(repo, 0755); err != nil {
		infra("%v", err)
	}
	if err := copyTree(repoDir, repo, ".git"); err != nil {
		infra("%v", err)
	}
	treeHash = hashTree(repo)
	vinstr := filepath.Join(verifDir, "bin", "vinstr")
	statsPath := filepath.Join(scratch, "instr.json")
	var out string
	var err error
	if profile == "codecs" {
		out, err = run(repo, nil, vinstr, "-root", repo, "-maponly", "client", "-yield", codecPkgs, "-shim", "-stats", statsPath)
	} else {
		out, err = run(repo, nil, vinstr, "-root", repo, "-maponly", codecPkgs, "-yield", "client", "-shim", "-stats", statsPath)
	}
	if err != nil {
		infra("instrumentation failed: %v\n%s", err, out)
	}
	if b, err := os.ReadFile(statsPath); err == nil {
		_ = json.Unmarshal(b, &instrStats)
	}
	// go.mod of the copy: language version 1.21 (generics for the helpers, pre-1.22 loop semantics)
	modPath := filepath.Join(repo, "go.mod")
	mod, err := os.ReadFile(modPath)
	if err != nil {
		infra("%v", err)
	}
	lines := strings.Split(string(mod), "\n")
	for i, l := range lines {
		if strings.HasPrefix(l, "go 1.") {
			lines[i] = "go 1.21"
		}
	}
	lines = append(lines, "", "require verif/simrt v0.0.0", "replace verif/simrt => ../simrt", "")
	if err := os.WriteFile(modPath, []byte(strings.Join(lines, "\n")), 0644); err != nil {
		infra("%v", err)
	}
	if err := copyTree(filepath.Join(verifDir, "simrt"), filepath.Join(scratch, "simrt")); err != nil {
		infra("%v", err)
	}
	if err := copyTree(filepath.Join(verifDir, "harness"), filepath.Join(scratch, "harness")); err != nil {
		infra("%v", err)
	}
	// go.sum for the harness: the repository's own plus the harness' extra dependencies
	sum, _ := os.ReadFile(filepath.Join(repoDir, "go.sum"))
	extra, _ := os.ReadFile(filepath.Join(verifDir, "harness", "go.sum.extra"))
	if err := os.WriteFile(filepath.Join(scratch, "harness", "go.sum"), append(sum, extra...), 0644); err != nil {
		infra("%v", err)
	}
	out, err = run(filepath.Join(scratch, "harness"), nil, goBin, "test", "-tags", "verif", "-c", "-o", filepath.Join(scratch, "worker.test"), "./sim")
	if err != nil {
		infra("build of the instrumented tree failed (exit 2, not a violation): %v\n%s", err, out)
	}
	fmt.Printf("vcheck: prepared %s profile=%s tree=%s in %.1fs\n", scratch, profile, treeHash[:12], time.Since(start).Seconds())
	return
}

func hashTree(dir string) string {
	h := sha256.New()
	var files []string
	filepath.Walk(dir, func(p string, info os.FileInfo, err error) error {
		if err == nil && !info.IsDir() && strings.HasSuffix(p, ".go") {
			files = append(files, p)
		}
		return nil
	})
	sort.Strings(files)
	for _, f := range files {
		rel, _ := filepath.Rel(dir, f)
		io.WriteString(h, rel)
		b, _ := os.ReadFile(f)
		h.Write(b)
	}
	return fmt.Sprintf("%x", h.Sum(nil))
}

type job struct {
	Property     string   `json:"property"`
	Tier         string   `json:"tier"`
	Seed         int64    `json:"seed"`
	Mode         string   `json:"mode"`
	From         int      `json:"from"`
	To           int      `json:"to"`
	Shard        int      `json:"shard"`
	NShards      int      `json:"nshards"`
	Known        []string `json:"known"`
	Out          string   `json:"out"`
	ReplayFile   string   `json:"replay_file"`
	ShrinkMs     int      `json:"shrink_ms"`
	DeadlineUnix int64    `json:"deadline_unix"`
}

type violation struct {
	Property string `json:"property"`
	Oracle   string `json:"oracle"`
	Class    string `json:"class"`
	Message  string `json:"message"`
	Step     int    `json:"step"`
}

type replayFile struct {
	Property    string                 `json:"property"`
	Oracle      string                 `json:"oracle"`
	ClassKey    string                 `json:"class_key"`
	Message     string                 `json:"message"`
	Seed        int64                  `json:"verif_seed"`
	Spec        json.RawMessage        `json:"spec"` // kept verbatim: 64-bit parameters must not pass through float64
	OrigTapeLen int                    `json:"orig_tape_len"`
	OrigNonzero int                    `json:"orig_tape_nonzero"`
	MinNonzero  int                    `json:"min_tape_nonzero"`
	Hash        uint64                 `json:"event_log_hash"`
	Config      map[string]string      `json:"config"`
	Trace       []string               `json:"trace"`
	TreeHash    string                 `json:"tree_hash,omitempty"`
}

type found struct {
	V      violation  `json:"violation"`
	Replay replayFile `json:"replay"`
}

type workerOut struct {
	Property       string                 `json:"property"`
	Cases          int                    `json:"cases"`
	Runs           int                    `json:"runs"`
	Hashes         []uint64               `json:"hashes"`
	Steps          int64                  `json:"steps"`
	Tasks          int64                  `json:"tasks"`
	Draws          int64                  `json:"draws"`
	FakeNs         int64                  `json:"fake_ns"`
	Faults         map[string]int         `json:"faults"`
	Probes         map[string]int         `json:"probes"`
	Counters       map[string]int         `json:"counters"`
	Found          []found                `json:"found"`
	VioCounts      map[string]int         `json:"violation_counts"`
	DetChecks      int                    `json:"determinism_checks"`
	DetFailures    []string               `json:"determinism_failures"`
	Samples        []interface{}          `json:"samples"`
	Errors         []string               `json:"errors"`
	Exhaustive     map[string]interface{} `json:"exhaustive"`
	WallS          float64                `json:"wall_s"`
	Complete       bool                   `json:"complete"`
	RunsAfterKnown int                    `json:"runs_stopped_at_known_finding"`
}

func runWorker(scratch string, j job, idx int, gomaxprocs int) (*workerOut, error) {
	jp := filepath.Join(scratch, fmt.Sprintf("job%d.json", idx))
	j.Out = filepath.Join(scratch, fmt.Sprintf("out%d.json", idx))
	b, _ := json.Marshal(j)
	if err := os.WriteFile(jp, b, 0644); err != nil {
		return nil, err
	}
	cmd := exec.Command(filepath.Join(scratch, "worker.test"), "-test.run", "^TestWorker$", "-test.timeout", "0", "-test.cpu", "1")
	cmd.Dir = scratch
	cmd.Env = append(os.Environ(), "VERIF_JOB="+jp, fmt.Sprintf("GOMAXPROCS=%d", gomaxprocs), "GOMEMLIMIT=3GiB")
	outb, err := cmd.CombinedOutput()
	ob, rerr := os.ReadFile(j.Out)
	if rerr != nil {
		tail := string(outb)
		if len(tail) > 4000 {
			tail = tail[len(tail)-4000:]
		}
		return nil, fmt.Errorf("worker %d produced no result (%v): %s", idx, err, tail)
	}
	var wo workerOut
	if err := json.Unmarshal(ob, &wo); err != nil {
		return nil, fmt.Errorf("worker %d: bad result: %v", idx, err)
	}
	return &wo, nil
}

func seedFromEnv() int64 {
	if s := os.Getenv("VERIF_SEED"); s != "" {
		if v, err := strconv.ParseInt(s, 10, 64); err == nil {
			return v
		}
	}
	return 20260923
}

func nWorkers() int {
	if s := os.Getenv("VERIF_WORKERS"); s != "" {
		if v, err := strconv.Atoi(s); err == nil && v > 0 {
			return v
		}
	}
	return 16
}

func mkScratch() string {
	base := os.Getenv("VERIF_SCRATCH")
	if base == "" {
		base = "/var/tmp"
	}
	d, err := os.MkdirTemp(base, "vcheck-")
	if err != nil {
		infra("%v", err)
	}
	return d
}

func cmdRun(prop, tier string) int {
	start := time.Now()
	cfg := cfgs[prop]
	if cfg == nil {
		infra("no check for property %s", prop)
	}
	seed := seedFromEnv()
	known, err := loadKnown()
	if err != nil {
		infra("%v", err)
	}
	var knownKeys []string
	for k, v := range known {
		if v.Property == prop {
			knownKeys = append(knownKeys, k)
		}
	}
	sort.Strings(knownKeys)
	scratch := mkScratch()
	defer os.RemoveAll(scratch)
	treeHash, instr := prepare(scratch, cfg.Profile)

	cases, secs, shrinkMs := cfg.QuickCases, cfg.QuickSecs, 12000
	if tier == "thorough" {
		cases, secs, shrinkMs = cfg.ThoroughCases, cfg.ThoroughSecs, 45000
	}
	if s := os.Getenv("VERIF_CASES"); s != "" {
		if v, err := strconv.Atoi(s); err == nil {
			cases = v
		}
	}
	W := nWorkers()
	deadline := time.Now().Add(time.Duration(secs) * time.Second).Unix()
	outs := make([]*workerOut, W)
	errs := make([]error, W)
	var wg sync.WaitGroup
	for k := 0; k < W; k++ {
		k := k
		wg.Add(1)
		go func() {
			defer wg.Done()
			from := cases * k / W
			to := cases * (k + 1) / W
			outs[k], errs[k] = runWorker(scratch, job{Property: prop, Tier: tier, Seed: seed, Mode: "cases", From: from, To: to,
				Shard: k, NShards: W, Known: knownKeys, ShrinkMs: shrinkMs, DeadlineUnix: deadline}, k, 1)
		}()
	}
	wg.Wait()
	for k, e := range errs {
		if e != nil {
			infra("worker %d: %v", k, e)
		}
	}
	// aggregate
	agg := &workerOut{Faults: map[string]int{}, Probes: map[string]int{}, Counters: map[string]int{}, VioCounts: map[string]int{}, Exhaustive: map[string]interface{}{}}
	distinct := map[uint64]bool{}
	best := map[string]found{}
	complete := true
	for _, o := range outs {
		agg.Cases += o.Cases
		agg.Runs += o.Runs
		agg.Steps += o.Steps
		agg.Tasks += o.Tasks
		agg.Draws += o.Draws
		agg.FakeNs += o.FakeNs
		agg.DetChecks += o.DetChecks
		agg.RunsAfterKnown += o.RunsAfterKnown
		agg.DetFailures = append(agg.DetFailures, o.DetFailures...)
		agg.Errors = append(agg.Errors, o.Errors...)
		if len(agg.Samples) < 4 {
			agg.Samples = append(agg.Samples, o.Samples...)
		}
		for k, v := range o.Faults {
			agg.Faults[k] += v
		}
		for k, v := range o.Probes {
			agg.Probes[k] += v
		}
		for k, v := range o.Counters {
			agg.Counters[k] += v
		}
		for k, v := range o.VioCounts {
			agg.VioCounts[k] += v
		}
		for k, v := range o.Exhaustive {
			agg.Exhaustive[k] = v
		}
		for _, h := range o.Hashes {
			distinct[h] = true
		}
		for _, f := range o.Found {
			if b, ok := best[f.Replay.ClassKey]; !ok || f.Replay.MinNonzero < b.Replay.MinNonzero {
				best[f.Replay.ClassKey] = f
			}
		}
		if !o.Complete {
			complete = false
		}
	}
	if len(agg.Errors) > 0 {
		infra("worker errors: %s", strings.Join(agg.Errors, "\n"))
	}
	if len(agg.DetFailures) > 0 {
		infra("DETERMINISM FAILURE of the machinery (not a violation):\n%s", strings.Join(agg.DetFailures, "\n"))
	}
	if agg.Runs == 0 {
		infra("no runs were executed")
	}
	// violations: known findings are listed, everything else is confirmed in a fresh process
	exit := 0
	var keys []string
	for k := range best {
		keys = append(keys, k)
	}
	sort.Strings(keys)
	knownHit := map[string]int{}
	for k, n := range agg.VioCounts {
		if _, ok := known[k]; ok {
			knownHit[k] = n
		}
	}
	for _, k := range knownKeys {
		fmt.Printf("KNOWN-FINDING: property=%s %s (hit in %d runs of this check) [%s]\n", prop, known[k].What, knownHit[k], k)
	}
	nViol := 0
	os.MkdirAll(filepath.Join(verifDir, "replays"), 0755)
	// stale replay files of this property (not referenced by a known finding) are removed
	if old, _ := filepath.Glob(filepath.Join(verifDir, "replays", prop+"-*.json")); len(old) > 0 {
		for _, o := range old {
			os.Remove(o)
		}
	}
	for _, k := range keys {
		if _, ok := known[k]; ok {
			continue
		}
		f := best[k]
		f.Replay.TreeHash = treeHash
		sum := sha256.Sum256([]byte(k))
		name := fmt.Sprintf("%s-%x.json", prop, sum[:6])
		path := filepath.Join(verifDir, "replays", name)
		b, _ := json.MarshalIndent(f.Replay, "", " ")
		if err := os.WriteFile(path, b, 0644); err != nil {
			infra("%v", err)
		}
		// replay in a fresh process: must reproduce exactly
		wo, err := runWorker(scratch, job{Property: prop, Tier: tier, Seed: seed, Mode: "replay", ReplayFile: path}, 1000+nViol, 1)
		if err != nil {
			infra("replay worker: %v", err)
		}
		if wo.Counters["replay_reproduced"] != 1 || wo.Counters["replay_hash_equal"] != 1 {
			infra("violation %s did not reproduce in a fresh process (reproduced=%d hash_equal=%d): machinery is not deterministic here", k, wo.Counters["replay_reproduced"], wo.Counters["replay_hash_equal"])
		}
		nViol++
		exit = 1
		fmt.Printf("VIOLATION property=%s replay=%s\n", prop, path)
		fmt.Printf("  class: %s\n  seen in %d runs; tape %d draws (%d non-zero) minimised to %d non-zero\n  %s\n", k, agg.VioCounts[k], f.Replay.OrigTapeLen, f.Replay.OrigNonzero, f.Replay.MinNonzero, firstLines(f.V.Message, 6))
	}
	if prop == "C18" {
		secs := 20
		if tier == "thorough" {
			secs = 300
		}
		rs := raceSupplement(scratch, seed, secs)
		agg.Exhaustive["race_detector_supplement (non-deterministic, outside the technique family)"] = rs.summary
		agg.Counters["race_supplement_iterations"] = rs.iterations
		agg.Counters["race_supplement_calls"] = rs.calls
		if rs.report != "" {
			path := filepath.Join(verifDir, "replays", "C18-race-report.txt")
			os.WriteFile(path, []byte(fmt.Sprintf("VERIF_SEED=%d\nreplay is best-effort: the race detector observes executions it does not control\n\n%s", seed, rs.report)), 0644)
			nViol++
			exit = 1
			fmt.Printf("VIOLATION property=C18 replay=%s\n  %s\n", path, firstLines(rs.report, 12))
		}
	}
	wall := time.Since(start).Seconds()
	writeEvidence(prop, tier, seed, cfg, agg, len(distinct), nViol, wall, complete, instr, knownHit, treeHash)
	fmt.Printf("vcheck: property=%s tier=%s seed=%d cases=%d runs=%d distinct_nontrivial=%d steps=%d violations=%d known_hit=%d wall=%.1fs complete=%v\n",
		prop, tier, seed, agg.Cases, agg.Runs, len(distinct), agg.Steps, nViol, len(knownHit), wall, complete)
	return exit
}

func firstLines(s string, n int) string {
	l := strings.Split(s, "\n")
	if len(l) > n {
		l = l[:n]
	}
	return strings.Join(l, "\n  ")
}

func writeEvidence(prop, tier string, seed int64, cfg *propCfg, agg *workerOut, distinct, nViol int, wall float64, complete bool, instr map[string]interface{}, knownHit map[string]int, treeHash string) {
	runsPerHour := 0.0
	if wall > 0 {
		runsPerHour = float64(agg.Runs) / wall * 3600
	}
	samples := agg.Samples
	if len(samples) == 0 {
		samples = []interface{}{"no sample captured"}
	}
	direct := agg.Counters["direct_header_evaluations"] + agg.Counters["direct_payload_evaluations"] + agg.Counters["direct_evaluations"]
	cov := map[string]interface{}{
		"evaluations":         agg.Runs + direct,
		"distinct_nontrivial": distinct + agg.Counters["direct_enumerated_distinct"],
		"rule":                cfg.Rule,
		"samples":             samples,
		"cases":               agg.Cases,
		"scheduler_steps":     agg.Steps,
		"tasks_created":       agg.Tasks,
		"tape_draws":          agg.Draws,
		"simulated_time":      time.Duration(agg.FakeNs).String(),
		"simulated_seconds":   float64(agg.FakeNs) / 1e9,
		"runs_per_hour":       runsPerHour,
		"fault_kinds_fired":   agg.Faults,
		"probes":              agg.Probes,
		"counters":            agg.Counters,
		"determinism_double_runs": agg.DetChecks,
		"violation_class_counts":  agg.VioCounts,
		"known_findings_hit":      knownHit,
		"runs_that_hit_a_known_finding": agg.RunsAfterKnown,
		"completed_all_planned_cases":   complete,
		"instrumentation":               instr,
		"components":                    realVsStub,
		"tree_hash":                     treeHash,
		"workers":                       nWorkers(),
	}
	if len(agg.Exhaustive) > 0 {
		cov["enumerated_subspaces"] = agg.Exhaustive
	}
	ev := map[string]interface{}{
		"property_id": prop,
		"tier":        tier,
		"seed":        seed,
		"level":       cfg.Level,
		"coverage":    cov,
		"assumptions": append(append([]string{}, commonAssumptions...), cfg.Assumptions...),
		"wall_s":      wall,
		"violations":  nViol,
	}
	b, _ := json.MarshalIndent(ev, "", " ")
	os.MkdirAll(filepath.Join(verifDir, "evidence"), 0755)
	if err := os.WriteFile(filepath.Join(verifDir, "evidence", prop+".json"), b, 0644); err != nil {
		infra("%v", err)
	}
}

func cmdReplay(path string) int {
	b, err := os.ReadFile(path)
	if err != nil {
		infra("%v", err)
	}
	var rf replayFile
	if err := json.Unmarshal(b, &rf); err != nil {
		infra("%v", err)
	}
	cfg := cfgs[rf.Property]
	if cfg == nil {
		infra("no check for property %s", rf.Property)
	}
	scratch := mkScratch()
	defer os.RemoveAll(scratch)
	prepare(scratch, cfg.Profile)
	abs, _ := filepath.Abs(path)
	wo, err := runWorker(scratch, job{Property: rf.Property, Mode: "replay", ReplayFile: abs, Seed: rf.Seed}, 0, 1)
	if err != nil {
		infra("%v", err)
	}
	if len(wo.Samples) > 0 {
		sb, _ := json.MarshalIndent(wo.Samples[0], "", " ")
		fmt.Println(string(sb))
	}
	if wo.Counters["replay_reproduced"] == 1 {
		fmt.Printf("VIOLATION property=%s replay=%s\n", rf.Property, path)
		fmt.Printf("  reproduced class %s (event-log hash equal: %v)\n", rf.ClassKey, wo.Counters["replay_hash_equal"] == 1)
		return 1
	}
	fmt.Printf("vcheck: replay of %s did not reproduce %s on the current tree\n", path, rf.ClassKey)
	return 0
}

func main() {
	if len(os.Args) < 2 {
		fmt.Fprintln(os.Stderr, "usage: vcheck run <property> [--tier quick|thorough] | replay <file> | selftest | prepare <dir> [profile]")
		os.Exit(2)
	}
	switch os.Args[1] {
	case "run":
		if len(os.Args) < 3 {
			infra("run: property id required")
		}
		tier := os.Getenv("VERIF_TIER")
		for i := 3; i < len(os.Args); i++ {
			if os.Args[i] == "--tier" && i+1 < len(os.Args) {
				tier = os.Args[i+1]
			}
		}
		if tier != "thorough" {
			tier = "quick"
		}
		os.Exit(cmdRun(os.Args[2], tier))
	case "replay":
		if len(os.Args) < 3 {
			infra("replay: file required")
		}
		os.Exit(cmdReplay(os.Args[2]))
	case "prepare":
		if len(os.Args) < 3 {
			infra("prepare: directory required")
		}
		profile := "client"
		if len(os.Args) > 3 {
			profile = os.Args[3]
		}
		os.MkdirAll(os.Args[2], 0755)
		prepare(os.Args[2], profile)
	case "selftest":
		os.Exit(cmdSelftest(os.Args[2:]))
	case "suite":
		os.Exit(cmdSuite())
	default:
		infra("unknown command %s", os.Args[1])
	}
}

func removeAll(p string) { os.RemoveAll(p) }

type raceResult struct {
	summary    string
	report     string
	iterations int
	calls      int
}

// raceSupplement builds the harness with -race from the already prepared scratch tree (no scheduler is
// installed in that binary, so the inserted yields are no-ops) and runs the C18 workload with real
// parallel goroutines for the given number of seconds.
func raceSupplement(scratch string, seed int64, secs int) raceResult {
	bin := filepath.Join(scratch, "race.test")
	out, err := run(filepath.Join(scratch, "harness"), []string{"CGO_ENABLED=1"}, goBin, "test", "-race", "-tags", "verif", "-c", "-o", bin, "./sim")
	if err != nil {
		infra("race build failed: %v\n%s", err, out)
	}
	jp := filepath.Join(scratch, "racejob.json")
	op := filepath.Join(scratch, "raceout.json")
	b, _ := json.Marshal(map[string]interface{}{"seed": seed, "seconds": secs, "out": op})
	os.WriteFile(jp, b, 0644)
	cmd := exec.Command(bin, "-test.run", "^TestRaceSupplement$", "-test.timeout", "0")
	cmd.Dir = scratch
	cmd.Env = append(os.Environ(), "VERIF_RACE_JOB="+jp, "GORACE=halt_on_error=0 history_size=2")
	outb, _ := cmd.CombinedOutput()
	text := string(outb)
	var res struct {
		Iterations int      `json:"iterations"`
		Calls      int      `json:"calls"`
		Mismatches []string `json:"mismatches"`
	}
	ob, rerr := os.ReadFile(op)
	if rerr != nil {
		// the binary died: a data race report or the runtime's own "concurrent map" detector is a finding,
		// anything else is infrastructure trouble
		for _, marker := range []string{"WARNING: DATA RACE", "fatal error: concurrent map"} {
			if i := strings.Index(text, marker); i >= 0 {
				rep := text[i:]
				if len(rep) > 6000 {
					rep = rep[:6000]
				}
				return raceResult{summary: "the -race binary crashed: " + marker, report: rep}
			}
		}
		tail := text
		if len(tail) > 3000 {
			tail = tail[len(tail)-3000:]
		}
		infra("race supplement produced no result: %s", tail)
	}
	json.Unmarshal(ob, &res)
	rr := raceResult{iterations: res.Iterations, calls: res.Calls}
	rr.summary = fmt.Sprintf("%d iterations, %d concurrent calls on shared codecs in %ds under -race with real goroutines; data races reported: %v; result mismatches: %d", res.Iterations, res.Calls, secs, strings.Contains(text, "DATA RACE"), len(res.Mismatches))
	if i := strings.Index(text, "WARNING: DATA RACE"); i >= 0 {
		rep := text[i:]
		if len(rep) > 6000 {
			rep = rep[:6000]
		}
		rr.report = rep
	} else if len(res.Mismatches) > 0 {
		rr.report = "result mismatch under real parallel execution:\n" + strings.Join(res.Mismatches, "\n")
	}
	return rr
}

// cmdSuite is the semantics-preservation check of the instrumenter (DESIGN.md §7): the repository's
// own test suite must pass on the fully instrumented copy (both profiles) with no scheduler installed.
func cmdSuite() int {
	bad := 0
	for _, profile := range []string{"client", "codecs"} {
		scratch := mkScratch()
		prepare(scratch, profile)
		// the client tests bind a fixed port: run them in a private network namespace when possible
		script := "go1.26.8 test -tags verif -vet=off -count=1 ./... 2>&1"
		cmd := exec.Command("unshare", "-rn", "sh", "-c", "ip link set lo up && "+script)
		cmd.Dir = filepath.Join(scratch, "repo")
		cmd.Env = env()
		out, err := cmd.CombinedOutput()
		if err != nil && !strings.Contains(string(out), "ok  ") {
			cmd = exec.Command("sh", "-c", script)
			cmd.Dir = filepath.Join(scratch, "repo")
			cmd.Env = env()
			out, err = cmd.CombinedOutput()
		}
		okLines, failLines := 0, 0
		for _, l := range strings.Split(string(out), "\n") {
			if strings.HasPrefix(l, "ok ") {
				okLines++
			}
			if strings.HasPrefix(l, "FAIL") || strings.HasPrefix(l, "--- FAIL") {
				failLines++
			}
		}
		fmt.Printf("suite on instrumented copy (profile %s): %d packages ok, %d FAIL lines, err=%v\n", profile, okLines, failLines, err)
		if err != nil || failLines > 0 || okLines == 0 {
			tail := string(out)
			if len(tail) > 3000 {
				tail = tail[len(tail)-3000:]
			}
			fmt.Println(tail)
			bad++
		}
		removeAll(scratch)
	}
	if bad > 0 {
		return 2
	}
	return 0
}
