package main

import (
	"fmt"
	"sort"
	"strings"
	"sync"
)

// cmdSelftest proves determinism of the machinery (DESIGN.md §7): for every property the same batch
// of cases is executed by several fresh worker processes at GOMAXPROCS 1, 4 and 16; the aggregate
// event-log hashes (over every run, in order) must be identical. Exit 2 on any divergence.
func cmdSelftest(args []string) int {
	var propsSel []string
	n := 70
	for i := 0; i < len(args); i++ {
		switch args[i] {
		case "--props":
			if i+1 < len(args) {
				propsSel = strings.Split(args[i+1], ",")
				i++
			}
		case "--cases":
			if i+1 < len(args) {
				fmt.Sscan(args[i+1], &n)
				i++
			}
		}
	}
	if len(propsSel) == 0 {
		for p := range cfgs {
			propsSel = append(propsSel, p)
		}
	}
	sort.Strings(propsSel)
	byProfile := map[string][]string{}
	for _, p := range propsSel {
		if cfgs[p] == nil {
			infra("unknown property %s", p)
		}
		byProfile[cfgs[p].Profile] = append(byProfile[cfgs[p].Profile], p)
	}
	seed := seedFromEnv()
	bad := 0
	for profile, ps := range byProfile {
		scratch := mkScratch()
		prepare(scratch, profile)
		for _, p := range ps {
			gmp := []int{1, 1, 4, 4, 16, 16}
			outs := make([]*workerOut, len(gmp))
			errs := make([]error, len(gmp))
			var wg sync.WaitGroup
			for k := range gmp {
				k := k
				wg.Add(1)
				go func() {
					defer wg.Done()
					outs[k], errs[k] = runWorker(scratch, job{Property: p, Tier: "quick", Seed: seed, Mode: "selftest", From: 0, To: n}, 2000+k, gmp[k])
				}()
			}
			wg.Wait()
			var sigs []string
			for k := range gmp {
				if errs[k] != nil {
					infra("selftest worker: %v", errs[k])
				}
				if len(outs[k].DetFailures) > 0 {
					fmt.Printf("selftest %s: in-process determinism failures: %v\n", p, outs[k].DetFailures)
					bad++
				}
				sigs = append(sigs, fmt.Sprintf("%d/%d/%d", outs[k].Counters["aggregate_hash_hi"], outs[k].Counters["aggregate_hash_lo"], outs[k].Runs))
			}
			same := true
			for _, s := range sigs[1:] {
				if s != sigs[0] {
					same = false
				}
			}
			fmt.Printf("selftest %s: %d runs per process, 6 processes (GOMAXPROCS 1,1,4,4,16,16): aggregate %s identical=%v\n", p, outs[0].Runs, sigs[0], same)
			if !same {
				fmt.Printf("  signatures: %v\n", sigs)
				bad++
			}
		}
		removeAll(scratch)
	}
	if bad > 0 {
		fmt.Println("selftest: DETERMINISM FAILURE")
		return 2
	}
	fmt.Println("selftest: ok")
	return 0
}
