// vinstr rewrites a scratch copy of the repository so that the simulator controls every source of
// scheduling nondeterminism (DESIGN.md §3.2):
//
//   - simrt.Yield before every statement (profile "yield" packages only)
//   - go statements                 -> simrt.Go
//   - sync.Mutex / RWMutex methods  -> simrt.Lock & co (by type)
//   - multi-case select             -> seeded polling order + blocking fallback + dispatch switch
//   - range over a map              -> range over simrt.MapKeys (all listed packages)
//   - net.Listen / net.Dialer.DialContext in package client -> hookable package variables
//
// usage: vinstr -root <repo copy> -yield client[,frame,...] -maponly primitive,... [-shim]
package main

import (
	"bytes"
	"encoding/json"
	"flag"
	"fmt"
	"go/ast"
	"go/format"
	"go/importer"
	"go/parser"
	"go/token"
	"go/types"
	"os"
	"path/filepath"
	"sort"
	"strconv"
	"strings"
)

const rtPath = "verif/simrt"

type stats struct {
	Yields       int            `json:"yields"`
	GoStmts      int            `json:"go_stmts"`
	Locks        int            `json:"locks"`
	Selects      int            `json:"selects"`
	MapRanges    int            `json:"map_ranges"`
	NetSeams     int            `json:"net_seams"`
	AllocGuards  int            `json:"alloc_guards"`
	ChanHoists   int            `json:"chan_operand_hoists"`
	Pools        int            `json:"sync_pool_calls"`
	Globals      int            `json:"package_level_vars_snapshotted"`
	Skipped      []string       `json:"skipped"`
	PerPackage   map[string]int `json:"sites_per_package"`
	Files        int            `json:"files"`
	TypeErrors   int            `json:"type_errors"`
	TypeErrFirst string         `json:"type_error_first,omitempty"`
}

var (
	fset     = token.NewFileSet()
	info     *types.Info
	st       = stats{PerPackage: map[string]int{}}
	yieldsOn bool
	pkgName  string
	curFunc  string
	ordinal  int
	tmpN     int
)

func site(pos token.Pos, kind string) *ast.BasicLit {
	p := fset.Position(pos)
	ordinal++
	s := fmt.Sprintf("%s.%s#%d:%s@%s:%d", pkgName, curFunc, ordinal, kind, filepath.Base(p.Filename), p.Line)
	st.PerPackage[pkgName]++
	return &ast.BasicLit{Kind: token.STRING, Value: strconv.Quote(s)}
}

func rt(fn string, args ...ast.Expr) *ast.CallExpr {
	return &ast.CallExpr{Fun: &ast.SelectorExpr{X: ast.NewIdent("simrt"), Sel: ast.NewIdent(fn)}, Args: args}
}

func yieldStmt(pos token.Pos, kind string) ast.Stmt {
	if !yieldsOn {
		return nil
	}
	st.Yields++
	return &ast.ExprStmt{X: rt("Yield", site(pos, kind))}
}

func isTerminating(s ast.Stmt) bool {
	switch x := s.(type) {
	case *ast.ReturnStmt, *ast.BranchStmt, *ast.IfStmt, *ast.ForStmt, *ast.RangeStmt, *ast.SwitchStmt,
		*ast.TypeSwitchStmt, *ast.SelectStmt, *ast.BlockStmt, *ast.LabeledStmt:
		return true
	case *ast.ExprStmt:
		if c, ok := x.X.(*ast.CallExpr); ok {
			if id, ok := c.Fun.(*ast.Ident); ok && id.Name == "panic" {
				return true
			}
		}
	}
	return false
}

// hoistChanOperand models the window between the evaluation of a channel operand and the channel
// operation itself (a goroutine can be preempted there; fields holding channels may be replaced or the
// channel closed in between): for `X <- v`, `<-X`, `a[, ok] := <-X`, `if a, ok := <-X; ...` and selects
// with a single communication clause, X is evaluated into a temporary first, then the task yields, then
// the operation runs on the temporary.
func hoistChanOperand(s ast.Stmt) []ast.Stmt {
	if !yieldsOn {
		return nil
	}
	var target *ast.Expr
	recvOf := func(e ast.Expr) *ast.Expr {
		if u, ok := e.(*ast.UnaryExpr); ok && u.Op == token.ARROW {
			return &u.X
		}
		return nil
	}
	simple := func(st ast.Stmt) *ast.Expr {
		switch x := st.(type) {
		case *ast.SendStmt:
			return &x.Chan
		case *ast.ExprStmt:
			return recvOf(x.X)
		case *ast.AssignStmt:
			if len(x.Rhs) == 1 {
				return recvOf(x.Rhs[0])
			}
		}
		return nil
	}
	switch x := s.(type) {
	case *ast.SendStmt, *ast.ExprStmt, *ast.AssignStmt:
		target = simple(s)
	case *ast.IfStmt:
		if x.Init != nil {
			target = simple(x.Init)
		}
	case *ast.SelectStmt:
		n := 0
		var comm ast.Stmt
		for _, c := range x.Body.List {
			if cc := c.(*ast.CommClause); cc.Comm != nil {
				n++
				comm = cc.Comm
			}
		}
		if n == 1 {
			target = simple(comm)
		}
	}
	if target == nil {
		return nil
	}
	if id, ok := (*target).(*ast.Ident); ok && id.Name == "nil" {
		return nil
	}
	t := info.TypeOf(*target)
	if t == nil {
		return nil
	}
	if _, isChan := t.Underlying().(*types.Chan); !isChan {
		return nil
	}
	tmp := newTmp("ch")
	pos := (*target).Pos()
	pre := []ast.Stmt{&ast.AssignStmt{Lhs: []ast.Expr{tmp}, Tok: token.DEFINE, Rhs: []ast.Expr{*target}}}
	*target = tmp
	st.Yields++
	st.ChanHoists++
	pre = append(pre, &ast.ExprStmt{X: rt("Yield", site(pos, "chanop"))})
	return pre
}

func instrList(list []ast.Stmt) []ast.Stmt {
	var out []ast.Stmt
	var lastOrig ast.Stmt
	for _, s := range list {
		pos := s.Pos()
		lastOrig = s
		hoisted := hoistChanOperand(s)
		ns := instrStmt(s)
		if y := yieldStmt(pos, "pre"); y != nil {
			out = append(out, y)
		}
		out = append(out, hoisted...)
		out = append(out, ns...)
	}
	if lastOrig != nil && !isTerminating(lastOrig) {
		if _, isGo := lastOrig.(*ast.GoStmt); !isGo {
			if y := yieldStmt(lastOrig.End(), "post"); y != nil {
				out = append(out, y)
			}
		}
	}
	return out
}

func instrBlock(b *ast.BlockStmt) {
	if b != nil {
		b.List = instrList(b.List)
	}
}

func one(s ast.Stmt) []ast.Stmt { return []ast.Stmt{s} }

func instrStmt(s ast.Stmt) []ast.Stmt {
	switch x := s.(type) {
	case *ast.BlockStmt:
		instrBlock(x)
	case *ast.IfStmt:
		instrSimple(x.Init)
		x.Cond = instrExpr(x.Cond)
		instrBlock(x.Body)
		if x.Else != nil {
			r := instrStmt(x.Else)
			x.Else = r[0]
		}
	case *ast.ForStmt:
		instrSimple(x.Init)
		if x.Cond != nil {
			x.Cond = instrExpr(x.Cond)
		}
		instrSimple(x.Post)
		instrBlock(x.Body)
	case *ast.RangeStmt:
		x.X = instrExpr(x.X)
		instrBlock(x.Body)
		instrMapRange(x)
	case *ast.SwitchStmt:
		instrSimple(x.Init)
		if x.Tag != nil {
			x.Tag = instrExpr(x.Tag)
		}
		for _, c := range x.Body.List {
			cc := c.(*ast.CaseClause)
			cc.Body = instrList(cc.Body)
		}
	case *ast.TypeSwitchStmt:
		instrSimple(x.Init)
		instrSimple(x.Assign)
		for _, c := range x.Body.List {
			cc := c.(*ast.CaseClause)
			cc.Body = instrList(cc.Body)
		}
	case *ast.SelectStmt:
		return one(instrSelect(x, nil))
	case *ast.LabeledStmt:
		if sel, ok := x.Stmt.(*ast.SelectStmt); ok {
			return one(instrSelect(sel, x.Label))
		}
		r := instrStmt(x.Stmt)
		x.Stmt = r[0]
		if len(r) > 1 {
			panic("labeled statement expanded")
		}
	case *ast.GoStmt:
		return instrGo(x)
	case *ast.DeferStmt:
		x.Call = instrExpr(x.Call).(*ast.CallExpr)
		// defer mu.Unlock() was rewritten into defer simrt.Unlock(...) by instrExpr
	default:
		instrSimple(s)
	}
	return one(s)
}

func instrSimple(s ast.Stmt) {
	if s == nil {
		return
	}
	switch x := s.(type) {
	case *ast.ExprStmt:
		x.X = instrExpr(x.X)
	case *ast.AssignStmt:
		for i := range x.Rhs {
			x.Rhs[i] = instrExpr(x.Rhs[i])
		}
	case *ast.SendStmt:
		x.Value = instrExpr(x.Value)
	case *ast.ReturnStmt:
		for i := range x.Results {
			x.Results[i] = instrExpr(x.Results[i])
		}
	case *ast.DeclStmt:
		if gd, ok := x.Decl.(*ast.GenDecl); ok {
			for _, sp := range gd.Specs {
				if vs, ok := sp.(*ast.ValueSpec); ok {
					for i := range vs.Values {
						vs.Values[i] = instrExpr(vs.Values[i])
					}
				}
			}
		}
	case *ast.IncDecStmt, *ast.EmptyStmt, *ast.BranchStmt:
	}
}

// syncKind classifies the receiver of a method call: "M" for sync.Mutex, "RW" for sync.RWMutex, with
// ptr telling whether the expression already is a pointer.
func syncKind(e ast.Expr) (kind string, ptr bool) {
	t := info.TypeOf(e)
	if t == nil {
		return "", false
	}
	if p, ok := t.Underlying().(*types.Pointer); ok {
		t = p.Elem()
		ptr = true
	}
	n, ok := t.(*types.Named)
	if !ok || n.Obj().Pkg() == nil || n.Obj().Pkg().Path() != "sync" {
		return "", false
	}
	switch n.Obj().Name() {
	case "Mutex":
		return "M", ptr
	case "RWMutex":
		return "RW", ptr
	}
	return "", false
}

func isNamed(t types.Type, pkg, name string) bool {
	if t == nil {
		return false
	}
	if p, ok := t.(*types.Pointer); ok {
		t = p.Elem()
	}
	n, ok := t.(*types.Named)
	return ok && n.Obj().Pkg() != nil && n.Obj().Pkg().Path() == pkg && n.Obj().Name() == name
}

// instrExpr rewrites lock calls / net seams at the top of an expression and instruments function
// literals anywhere inside it.
func instrExpr(e ast.Expr) ast.Expr {
	if e == nil {
		return nil
	}
	ast.Inspect(e, func(n ast.Node) bool {
		if fl, ok := n.(*ast.FuncLit); ok {
			instrBlock(fl.Body)
			return false
		}
		return true
	})
	// net seams may sit anywhere in an expression (e.g. right-hand side of an assignment)
	if pkgName == "client" {
		e = rewriteNet(e)
	}
	c, ok := e.(*ast.CallExpr)
	if !ok {
		return e
	}
	sel, ok := c.Fun.(*ast.SelectorExpr)
	if !ok {
		return e
	}
	if len(c.Args) == 0 {
		kind, ptr := syncKind(sel.X)
		if kind != "" {
			var fn string
			switch sel.Sel.Name {
			case "Lock":
				fn = map[string]string{"M": "Lock", "RW": "RWLock"}[kind]
			case "Unlock":
				fn = map[string]string{"M": "Unlock", "RW": "RWUnlock"}[kind]
			case "RLock":
				fn = "RLock"
			case "RUnlock":
				fn = "RUnlock"
			}
			if fn != "" {
				var recv ast.Expr = sel.X
				if !ptr {
					recv = &ast.UnaryExpr{Op: token.AND, X: sel.X}
				}
				st.Locks++
				return rt(fn, recv, site(c.Pos(), "lock"))
			}
		}
	}
	return e
}

func rewriteNet(e ast.Expr) ast.Expr {
	var res = e
	replace := func(c *ast.CallExpr) ast.Expr {
		sel, ok := c.Fun.(*ast.SelectorExpr)
		if !ok {
			return nil
		}
		if id, ok := sel.X.(*ast.Ident); ok && id.Name == "net" && sel.Sel.Name == "Listen" {
			if _, isPkg := info.Uses[id].(*types.PkgName); isPkg {
				st.NetSeams++
				return &ast.CallExpr{Fun: ast.NewIdent("VerifListen"), Args: c.Args}
			}
		}
		if sel.Sel.Name == "DialContext" && isNamed(info.TypeOf(sel.X), "net", "Dialer") {
			st.NetSeams++
			var recv ast.Expr = sel.X
			if _, isPtr := info.TypeOf(sel.X).(*types.Pointer); !isPtr {
				recv = &ast.UnaryExpr{Op: token.AND, X: sel.X}
			}
			return &ast.CallExpr{Fun: ast.NewIdent("VerifDial"), Args: append([]ast.Expr{recv}, c.Args...)}
		}
		return nil
	}
	if c, ok := e.(*ast.CallExpr); ok {
		if r := replace(c); r != nil {
			return r
		}
	}
	_ = res
	return e
}

func newTmp(prefix string) *ast.Ident {
	tmpN++
	return ast.NewIdent(fmt.Sprintf("_v%s%d", prefix, tmpN))
}

func isSimpleOperand(e ast.Expr) bool {
	switch x := e.(type) {
	case *ast.Ident:
		return true
	case *ast.SelectorExpr:
		return isSimpleOperand(x.X)
	case *ast.ParenExpr:
		return isSimpleOperand(x.X)
	case *ast.StarExpr:
		return isSimpleOperand(x.X)
	}
	return false
}

func instrMapRange(x *ast.RangeStmt) {
	t := info.TypeOf(x.X)
	if t == nil {
		return
	}
	if _, isMap := t.Underlying().(*types.Map); !isMap {
		return
	}
	pos := fset.Position(x.Pos())
	where := fmt.Sprintf("%s:%d", filepath.Base(pos.Filename), pos.Line)
	if x.Key != nil && x.Tok != token.DEFINE {
		st.Skipped = append(st.Skipped, "map range with '=' at "+where)
		return
	}
	if !isSimpleOperand(x.X) {
		st.Skipped = append(st.Skipped, "map range over complex expression at "+where)
		return
	}
	m := x.X
	st.MapRanges++
	keys := rt("MapKeys", m, site(x.Pos(), "maprange"))
	if x.Key == nil { // for range m
		x.X = keys
		return
	}
	var k *ast.Ident
	if id, ok := x.Key.(*ast.Ident); ok && id.Name != "_" {
		k = id
	} else {
		k = newTmp("k")
	}
	okId := newTmp("ok")
	var vId ast.Expr = ast.NewIdent("_")
	if x.Value != nil {
		if id, ok := x.Value.(*ast.Ident); !ok || id.Name != "_" {
			vId = x.Value
		}
	}
	pre := []ast.Stmt{
		&ast.AssignStmt{Lhs: []ast.Expr{vId, okId}, Tok: token.DEFINE, Rhs: []ast.Expr{&ast.IndexExpr{X: m, Index: k}}},
		&ast.IfStmt{Cond: &ast.UnaryExpr{Op: token.NOT, X: okId}, Body: &ast.BlockStmt{List: []ast.Stmt{&ast.BranchStmt{Tok: token.CONTINUE}}}},
	}
	x.Body.List = append(pre, x.Body.List...)
	x.Key = ast.NewIdent("_")
	x.Value = k
	x.Tok = token.DEFINE
	x.X = keys
}

func instrGo(g *ast.GoStmt) []ast.Stmt {
	st.GoStmts++
	if fl, ok := g.Call.Fun.(*ast.FuncLit); ok && len(g.Call.Args) == 0 {
		instrBlock(fl.Body)
		return one(&ast.ExprStmt{X: rt("Go", site(g.Pos(), "go"), fl)})
	}
	// general form: evaluate function value and arguments now, call later
	var pre []ast.Stmt
	var args []ast.Expr
	fun := g.Call.Fun
	if fl, ok := fun.(*ast.FuncLit); ok {
		instrBlock(fl.Body)
	}
	for _, a := range g.Call.Args {
		id := newTmp("a")
		pre = append(pre, &ast.AssignStmt{Lhs: []ast.Expr{id}, Tok: token.DEFINE, Rhs: []ast.Expr{instrExpr(a)}})
		args = append(args, id)
	}
	call := &ast.CallExpr{Fun: fun, Args: args, Ellipsis: g.Call.Ellipsis}
	lit := &ast.FuncLit{Type: &ast.FuncType{Params: &ast.FieldList{}}, Body: &ast.BlockStmt{List: []ast.Stmt{&ast.ExprStmt{X: call}}}}
	pre = append(pre, &ast.ExprStmt{X: rt("Go", site(g.Pos(), "go"), lit)})
	return one(&ast.BlockStmt{List: pre})
}

func lit(k int) ast.Expr { return &ast.BasicLit{Kind: token.INT, Value: strconv.Itoa(k)} }

func instrSelect(sel *ast.SelectStmt, label *ast.Ident) ast.Stmt {
	nComm := 0
	hasDefault := false
	for _, c := range sel.Body.List {
		cc := c.(*ast.CommClause)
		if cc.Comm == nil {
			hasDefault = true
		} else {
			nComm++
		}
	}
	if nComm < 2 {
		for _, c := range sel.Body.List {
			cc := c.(*ast.CommClause)
			if cc.Comm != nil {
				instrSimple(cc.Comm)
			}
			cc.Body = instrList(cc.Body)
		}
		if label != nil {
			return &ast.LabeledStmt{Label: label, Stmt: sel}
		}
		return sel
	}
	st.Selects++
	tmpN++
	id := tmpN
	v := func(s string, i int) *ast.Ident { return ast.NewIdent(fmt.Sprintf("_sel%d_%s%d", id, s, i)) }
	chosen := ast.NewIdent(fmt.Sprintf("_sel%d_chosen", id))
	nready := ast.NewIdent(fmt.Sprintf("_sel%d_n", id))
	_ = nready
	var pre []ast.Stmt
	type caseInfo struct {
		comm  ast.Stmt
		body  []ast.Stmt
		binds *ast.AssignStmt
	}
	var cases []caseInfo
	var defBody []ast.Stmt
	i := 0
	for _, c := range sel.Body.List {
		cc := c.(*ast.CommClause)
		if cc.Comm == nil {
			defBody = instrList(cc.Body)
			continue
		}
		ci := caseInfo{body: instrList(cc.Body)}
		switch cm := cc.Comm.(type) {
		case *ast.SendStmt:
			pre = append(pre, &ast.AssignStmt{Lhs: []ast.Expr{v("c", i), v("x", i)}, Tok: token.DEFINE, Rhs: []ast.Expr{cm.Chan, instrExpr(cm.Value)}})
			ci.comm = &ast.SendStmt{Chan: v("c", i), Value: v("x", i)}
		case *ast.ExprStmt:
			ch := cm.X.(*ast.UnaryExpr).X
			pre = append(pre, &ast.AssignStmt{Lhs: []ast.Expr{v("c", i)}, Tok: token.DEFINE, Rhs: []ast.Expr{ch}})
			ci.comm = &ast.ExprStmt{X: &ast.UnaryExpr{Op: token.ARROW, X: v("c", i)}}
		case *ast.AssignStmt:
			ch := cm.Rhs[0].(*ast.UnaryExpr).X
			pre = append(pre, &ast.AssignStmt{Lhs: []ast.Expr{v("c", i)}, Tok: token.DEFINE, Rhs: []ast.Expr{ch}})
			pre = append(pre, &ast.AssignStmt{Lhs: []ast.Expr{v("v", i), v("ok", i)}, Tok: token.DEFINE, Rhs: []ast.Expr{rt("ZeroOfChan", v("c", i)), ast.NewIdent("false")}})
			pre = append(pre, &ast.AssignStmt{Lhs: []ast.Expr{ast.NewIdent("_"), ast.NewIdent("_")}, Tok: token.ASSIGN, Rhs: []ast.Expr{v("v", i), v("ok", i)}})
			ci.comm = &ast.AssignStmt{Lhs: []ast.Expr{v("v", i), v("ok", i)}, Tok: token.ASSIGN, Rhs: []ast.Expr{&ast.UnaryExpr{Op: token.ARROW, X: v("c", i)}}}
			rhs := []ast.Expr{v("v", i)}
			if len(cm.Lhs) == 2 {
				rhs = append(rhs, v("ok", i))
			}
			ci.binds = &ast.AssignStmt{Lhs: cm.Lhs, Tok: cm.Tok, Rhs: rhs}
		}
		cases = append(cases, ci)
		i++
	}
	n := len(cases)
	set := func(k int) ast.Stmt {
		return &ast.AssignStmt{Lhs: []ast.Expr{chosen}, Tok: token.ASSIGN, Rhs: []ast.Expr{lit(k)}}
	}
	selSite := site(sel.Pos(), "select")
	var pollCases []ast.Stmt
	for k, ci := range cases {
		pollCases = append(pollCases, &ast.CaseClause{List: []ast.Expr{lit(k)}, Body: []ast.Stmt{
			&ast.SelectStmt{Body: &ast.BlockStmt{List: []ast.Stmt{
				&ast.CommClause{Comm: ci.comm, Body: []ast.Stmt{set(k)}},
				&ast.CommClause{Comm: nil},
			}}},
		}})
	}
	iv := ast.NewIdent(fmt.Sprintf("_sel%d_i", id))
	poll := &ast.RangeStmt{Key: ast.NewIdent("_"), Value: iv, Tok: token.DEFINE,
		X: rt("SelectOrder", selSite, lit(n)),
		Body: &ast.BlockStmt{List: []ast.Stmt{
			&ast.SwitchStmt{Tag: iv, Body: &ast.BlockStmt{List: pollCases}},
			&ast.IfStmt{Cond: &ast.BinaryExpr{X: chosen, Op: token.GEQ, Y: lit(0)}, Body: &ast.BlockStmt{List: []ast.Stmt{&ast.BranchStmt{Tok: token.BREAK}}}},
		}}}
	var fbList []ast.Stmt
	if hasDefault {
		fbList = []ast.Stmt{set(n)}
	} else {
		var comms []ast.Stmt
		for k, ci := range cases {
			comms = append(comms, &ast.CommClause{Comm: ci.comm, Body: []ast.Stmt{set(k)}})
		}
		fbList = []ast.Stmt{&ast.SelectStmt{Body: &ast.BlockStmt{List: comms}}}
		if yieldsOn {
			st.Yields++
			fbList = append(fbList, &ast.ExprStmt{X: rt("Yield", site(sel.Pos(), "selwake"))})
		}
	}
	ifNone := &ast.IfStmt{Cond: &ast.BinaryExpr{X: chosen, Op: token.LSS, Y: lit(0)}, Body: &ast.BlockStmt{List: fbList}}
	var disp []ast.Stmt
	for k, ci := range cases {
		body := ci.body
		if ci.binds != nil {
			as := ci.binds
			var uses []ast.Expr
			for _, l := range as.Lhs {
				if id, ok := l.(*ast.Ident); ok && id.Name != "_" {
					uses = append(uses, id)
				}
			}
			b2 := []ast.Stmt{as}
			if as.Tok == token.DEFINE && len(uses) > 0 {
				var blanks []ast.Expr
				for range uses {
					blanks = append(blanks, ast.NewIdent("_"))
				}
				b2 = append(b2, &ast.AssignStmt{Lhs: blanks, Tok: token.ASSIGN, Rhs: uses})
			}
			if as.Tok == token.DEFINE && len(uses) == 0 {
				as.Tok = token.ASSIGN
			}
			body = append(b2, body...)
		}
		disp = append(disp, &ast.CaseClause{List: []ast.Expr{lit(k)}, Body: body})
	}
	if hasDefault {
		disp = append(disp, &ast.CaseClause{List: []ast.Expr{lit(n)}, Body: defBody})
	}
	disp = append(disp, &ast.CaseClause{List: nil, Body: []ast.Stmt{&ast.ExprStmt{X: &ast.CallExpr{Fun: ast.NewIdent("panic"), Args: []ast.Expr{&ast.BasicLit{Kind: token.STRING, Value: "\"simrt: unreachable select dispatch\""}}}}}})
	var sw ast.Stmt = &ast.SwitchStmt{Tag: chosen, Body: &ast.BlockStmt{List: disp}}
	if label != nil {
		sw = &ast.LabeledStmt{Label: label, Stmt: sw}
	}
	var all []ast.Stmt
	all = append(all, pre...)
	if yieldsOn {
		st.Yields++
		all = append(all, &ast.ExprStmt{X: rt("Yield", site(sel.Pos(), "selops"))})
	}
	all = append(all, &ast.AssignStmt{Lhs: []ast.Expr{chosen}, Tok: token.DEFINE, Rhs: []ast.Expr{&ast.UnaryExpr{Op: token.SUB, X: lit(1)}}})
	all = append(all, poll, ifNone, sw)
	return &ast.BlockStmt{List: all}
}

func funcName(fd *ast.FuncDecl) string {
	if fd.Recv != nil && len(fd.Recv.List) > 0 {
		t := fd.Recv.List[0].Type
		if s, ok := t.(*ast.StarExpr); ok {
			t = s.X
		}
		if ix, ok := t.(*ast.IndexExpr); ok {
			t = ix.X
		}
		if id, ok := t.(*ast.Ident); ok {
			return id.Name + "." + fd.Name.Name
		}
	}
	return fd.Name.Name
}

type loaded struct {
	rel    string
	yields bool
	files  []*ast.File
	paths  map[*ast.File]string
	info   *types.Info
}

var sharedImporter types.Importer

func loadPackage(root, rel string, yields bool) (*loaded, error) {
	dir := filepath.Join(root, rel)
	ents, err := os.ReadDir(dir)
	if err != nil {
		return nil, err
	}
	l := &loaded{rel: rel, yields: yields, paths: map[*ast.File]string{}}
	for _, e := range ents {
		name := e.Name()
		if !strings.HasSuffix(name, ".go") || strings.HasSuffix(name, "_test.go") || strings.HasPrefix(name, "zz_verif") {
			continue
		}
		f, err := parser.ParseFile(fset, filepath.Join(dir, name), nil, parser.SkipObjectResolution|parser.ParseComments)
		if err != nil {
			return nil, err
		}
		l.files = append(l.files, f)
		l.paths[f] = filepath.Join(dir, name)
	}
	if len(l.files) == 0 {
		return nil, fmt.Errorf("no go files in %s", dir)
	}
	l.info = &types.Info{Types: map[ast.Expr]types.TypeAndValue{}, Uses: map[*ast.Ident]types.Object{}}
	conf := types.Config{Importer: sharedImporter, Error: func(err error) {
		st.TypeErrors++
		if st.TypeErrFirst == "" {
			st.TypeErrFirst = err.Error()
		}
	}}
	conf.Check(rel, fset, l.files, l.info)
	return l, nil
}

var sizes = types.SizesFor("gc", "amd64")

// guardAllocs wraps the length/capacity arguments of make([]T, n[, c]), make(map, n) and
// reflect.MakeSlice(t, n, c) in simrt.AllocGuard (see simrt: the sandbox has no memory limit).
func guardAllocs(f *ast.File) int {
	n := 0
	wrap := func(e ast.Expr, elem int64) ast.Expr {
		if bl, ok := e.(*ast.BasicLit); ok && bl.Kind == token.INT {
			return e // small literal constants need no guard
		}
		n++
		return rt("AllocGuard", e, &ast.BasicLit{Kind: token.INT, Value: strconv.FormatInt(elem, 10)})
	}
	ast.Inspect(f, func(nd ast.Node) bool {
		c, ok := nd.(*ast.CallExpr)
		if !ok {
			return true
		}
		if id, ok := c.Fun.(*ast.Ident); ok && id.Name == "make" && len(c.Args) >= 2 {
			if _, isBuiltin := info.Uses[id].(*types.Builtin); isBuiltin {
				t := info.TypeOf(c.Args[0])
				if t != nil {
					switch u := t.Underlying().(type) {
					case *types.Slice:
						sz := sizes.Sizeof(u.Elem())
						if sz < 1 {
							sz = 1
						}
						for i := 1; i < len(c.Args); i++ {
							c.Args[i] = wrap(c.Args[i], sz)
						}
					case *types.Map:
						c.Args[1] = wrap(c.Args[1], 48)
					}
				}
			}
		}
		if sel, ok := c.Fun.(*ast.SelectorExpr); ok && sel.Sel.Name == "MakeSlice" && len(c.Args) == 3 {
			if id, ok := sel.X.(*ast.Ident); ok && id.Name == "reflect" {
				c.Args[1] = wrap(c.Args[1], 16)
				c.Args[2] = wrap(c.Args[2], 16)
			}
		}
		if sel, ok := c.Fun.(*ast.SelectorExpr); ok && sel.Sel.Name == "MakeMapWithSize" && len(c.Args) == 2 {
			if id, ok := sel.X.(*ast.Ident); ok && id.Name == "reflect" {
				c.Args[1] = wrap(c.Args[1], 48)
			}
		}
		return true
	})
	return n
}

// rewritePools turns p.Get() / p.Put(x) on a sync.Pool into simrt.PoolGet(&p) / simrt.PoolPut(&p, x).
func rewritePools(f *ast.File) int {
	n := 0
	ast.Inspect(f, func(nd ast.Node) bool {
		c, ok := nd.(*ast.CallExpr)
		if !ok {
			return true
		}
		sel, ok := c.Fun.(*ast.SelectorExpr)
		if !ok || (sel.Sel.Name != "Get" && sel.Sel.Name != "Put") {
			return true
		}
		t := info.TypeOf(sel.X)
		if t == nil || !isNamed(t, "sync", "Pool") {
			return true
		}
		var recv ast.Expr = sel.X
		if _, isPtr := t.(*types.Pointer); !isPtr {
			recv = &ast.UnaryExpr{Op: token.AND, X: sel.X}
		}
		if sel.Sel.Name == "Get" && len(c.Args) == 0 {
			c.Fun = &ast.SelectorExpr{X: ast.NewIdent("simrt"), Sel: ast.NewIdent("PoolGet")}
			c.Args = []ast.Expr{recv}
			n++
		} else if sel.Sel.Name == "Put" && len(c.Args) == 1 {
			c.Fun = &ast.SelectorExpr{X: ast.NewIdent("simrt"), Sel: ast.NewIdent("PoolPut")}
			c.Args = []ast.Expr{recv, c.Args[0]}
			n++
		}
		return true
	})
	return n
}

func rewritePackage(l *loaded) error {
	info = l.info
	files, paths := l.files, l.paths
	yieldsOn = l.yields
	pkgName = files[0].Name.Name
	for _, f := range files {
		before := st.PerPackage[pkgName]
		beforeNet := st.NetSeams
		guards := guardAllocs(f)
		st.AllocGuards += guards
		pools := rewritePools(f)
		st.Pools += pools
		guards += pools
		for _, d := range f.Decls {
			switch x := d.(type) {
			case *ast.FuncDecl:
				if x.Body == nil {
					continue
				}
				curFunc = funcName(x)
				ordinal = 0
				if x.Name.Name == "String" || x.Name.Name == "Error" || x.Name.Name == "GoString" {
					// Stringers are invoked by logging/formatting; keep them atomic, but still make
					// their map ranges deterministic.
					saved := yieldsOn
					yieldsOn = false
					instrBlock(x.Body)
					yieldsOn = saved
					continue
				}
				instrBlock(x.Body)
			case *ast.GenDecl:
				curFunc = "init"
				for _, sp := range x.Specs {
					if vs, ok := sp.(*ast.ValueSpec); ok {
						for i := range vs.Values {
							if len(vs.Names) > i {
								curFunc = "var_" + vs.Names[i].Name
								ordinal = 0
							}
							vs.Values[i] = instrExpr(vs.Values[i])
						}
					}
				}
			}
		}
		if st.PerPackage[pkgName] == before && st.NetSeams == beforeNet && guards == 0 {
			continue
		}
		if st.PerPackage[pkgName] != before || guards > 0 {
			addImport(f)
		}
		keepDirectives(f)
		var buf bytes.Buffer
		if err := format.Node(&buf, fset, f); err != nil {
			return fmt.Errorf("%s: %v", paths[f], err)
		}
		if err := os.WriteFile(paths[f], buf.Bytes(), 0644); err != nil {
			return err
		}
		st.Files++
	}
	return nil
}

// writeGlobals generates zz_verif_globals.go for one package: a snapshot/restore pair over every
// package-level variable, registered with simrt. The harness takes the snapshot once (after all package
// initialisation) and restores it before every simulated run, so that each run starts from the state
// of a freshly started process: lazily built tables, spare buffers, counters and sync.Once values that
// a change may introduce at package level are cold again, and runs do not influence each other.
// The copy is shallow, which is what "as after package initialisation" means for everything that is
// not mutated in place.
func writeGlobals(l *loaded) error {
	var names []string
	for _, f := range l.files {
		for _, d := range f.Decls {
			gd, ok := d.(*ast.GenDecl)
			if !ok || gd.Tok != token.VAR {
				continue
			}
			for _, sp := range gd.Specs {
				if vs, ok := sp.(*ast.ValueSpec); ok {
					for _, n := range vs.Names {
						if n.Name != "_" {
							names = append(names, n.Name)
						}
					}
				}
			}
		}
	}
	if len(names) == 0 {
		return nil
	}
	sort.Strings(names)
	var b bytes.Buffer
	fmt.Fprintf(&b, "//go:build verif\n\n// Code generated by vinstr; DO NOT EDIT. Snapshot and restore of package-level state.\n\npackage %s\n\nimport %q\n\n", l.files[0].Name.Name, rtPath)
	fmt.Fprintf(&b, "func init() {\n\tsimrt.RegisterGlobals(%q, func() func() {\n", l.rel)
	for i, n := range names {
		fmt.Fprintf(&b, "\t\ts%d := %s\n", i, n)
	}
	fmt.Fprintf(&b, "\t\treturn func() {\n")
	for i, n := range names {
		fmt.Fprintf(&b, "\t\t\t%s = s%d\n", n, i)
	}
	fmt.Fprintf(&b, "\t\t}\n\t})\n}\n")
	st.Globals += len(names)
	return os.WriteFile(filepath.Join(l.rel, "zz_verif_globals.go"), b.Bytes(), 0644)
}

func addImport(f *ast.File) {
	imp := &ast.GenDecl{Tok: token.IMPORT, Specs: []ast.Spec{&ast.ImportSpec{Path: &ast.BasicLit{Kind: token.STRING, Value: strconv.Quote(rtPath)}}}}
	f.Decls = append([]ast.Decl{imp}, f.Decls...)
}

// keepDirectives drops all comments except build constraints / go: directives placed before the
// package clause (comment positions are meaningless after rewriting).
func keepDirectives(f *ast.File) {
	var keep []*ast.CommentGroup
	for _, cg := range f.Comments {
		if cg.End() < f.Package {
			for _, c := range cg.List {
				if strings.HasPrefix(c.Text, "//go:build") || strings.HasPrefix(c.Text, "// +build") {
					keep = append(keep, &ast.CommentGroup{List: []*ast.Comment{c}})
				}
			}
		}
	}
	f.Comments = keep
	f.Doc = nil
	ast.Inspect(f, func(n ast.Node) bool {
		switch x := n.(type) {
		case *ast.FuncDecl:
			x.Doc = nil
		case *ast.GenDecl:
			x.Doc = nil
		case *ast.Field:
			x.Doc, x.Comment = nil, nil
		case *ast.ValueSpec:
			x.Doc, x.Comment = nil, nil
		case *ast.TypeSpec:
			x.Doc, x.Comment = nil, nil
		case *ast.ImportSpec:
			x.Doc, x.Comment = nil, nil
		}
		return true
	})
}

const shimSrc = `//go:build verif

// Code generated by vinstr; DO NOT EDIT. Export shim for the simulation harness.
package client

import (
	"context"
	"net"
	"time"

	"github.com/datastax/go-cassandra-native-protocol/frame"
	"github.com/datastax/go-cassandra-native-protocol/primitive"
)

// VerifListen / VerifDial replace net.Listen and (*net.Dialer).DialContext in this package.
var VerifListen = net.Listen
var VerifDial = func(d *net.Dialer, ctx context.Context, network, addr string) (net.Conn, error) {
	return d.DialContext(ctx, network, addr)
}

func VerifNewClientConnection(conn net.Conn, ctx context.Context, credentials *AuthCredentials, compression primitive.Compression,
	maxInFlight int, maxPending int, readTimeout time.Duration, handlers []EventHandler) (*CqlClientConnection, error) {
	return newCqlClientConnection(conn, ctx, credentials, compression, maxInFlight, maxPending, readTimeout, handlers)
}

func VerifNewServerConnection(conn net.Conn, ctx context.Context, credentials *AuthCredentials, maxInFlight int,
	idleTimeout time.Duration, handlers []RequestHandler, rawHandlers []RawRequestHandler, onClose func(*CqlServerConnection)) (*CqlServerConnection, error) {
	return newCqlServerConnection(conn, ctx, credentials, maxInFlight, idleTimeout, handlers, rawHandlers, onClose)
}

// VerifInFlight exposes the in-flight request handler.
type VerifInFlight struct{ h *inFlightRequestsHandler }

func VerifNewInFlight(id string, ctx context.Context, maxInFlight, maxPending int, timeout time.Duration) *VerifInFlight {
	return &VerifInFlight{h: newInFlightRequestsHandler(id, ctx, maxInFlight, maxPending, timeout)}
}
func (v *VerifInFlight) Enqueue(f *frame.Frame) (InFlightRequest, error) { return v.h.onOutgoingFrameEnqueued(f) }
func (v *VerifInFlight) Deliver(f *frame.Frame) error                   { return v.h.onIncomingFrameReceived(f) }
func (v *VerifInFlight) Close()                                         { v.h.close() }
`

func main() {
	root := flag.String("root", "", "root of the repository copy to rewrite in place")
	yield := flag.String("yield", "", "comma-separated package dirs (relative) that get statement-level yields")
	maponly := flag.String("maponly", "", "comma-separated package dirs that only get the map-range rewrite")
	shim := flag.Bool("shim", false, "write client/zz_verif_shim.go")
	statsOut := flag.String("stats", "", "write instrumentation statistics (JSON) here")
	flag.Parse()
	if *root == "" {
		fmt.Fprintln(os.Stderr, "vinstr: -root required")
		os.Exit(2)
	}
	// type-check relative to the copy so that the source importer resolves the module's own packages
	if err := os.Chdir(*root); err != nil {
		fmt.Fprintln(os.Stderr, "vinstr:", err)
		os.Exit(2)
	}
	split := func(s string) []string {
		var out []string
		for _, p := range strings.Split(s, ",") {
			if p = strings.TrimSpace(p); p != "" {
				out = append(out, p)
			}
		}
		return out
	}
	sharedImporter = importer.ForCompiler(fset, "source", nil)
	var pkgs []*loaded
	for _, p := range split(*maponly) {
		l, err := loadPackage(*root, p, false)
		if err != nil {
			fmt.Fprintln(os.Stderr, "vinstr:", err)
			os.Exit(2)
		}
		pkgs = append(pkgs, l)
	}
	for _, p := range split(*yield) {
		l, err := loadPackage(*root, p, true)
		if err != nil {
			fmt.Fprintln(os.Stderr, "vinstr:", err)
			os.Exit(2)
		}
		pkgs = append(pkgs, l)
	}
	if st.TypeErrors > 0 {
		fmt.Fprintf(os.Stderr, "vinstr: %d type errors, first: %s\n", st.TypeErrors, st.TypeErrFirst)
		os.Exit(2)
	}
	for _, l := range pkgs {
		if err := writeGlobals(l); err != nil {
			fmt.Fprintln(os.Stderr, "vinstr:", err)
			os.Exit(2)
		}
		if err := rewritePackage(l); err != nil {
			fmt.Fprintln(os.Stderr, "vinstr:", err)
			os.Exit(2)
		}
	}
	if *shim {
		if err := os.WriteFile(filepath.Join(*root, "client", "zz_verif_shim.go"), []byte(shimSrc), 0644); err != nil {
			fmt.Fprintln(os.Stderr, "vinstr:", err)
			os.Exit(2)
		}
	}
	sort.Strings(st.Skipped)
	if *statsOut != "" {
		b, _ := json.MarshalIndent(st, "", " ")
		_ = os.WriteFile(*statsOut, b, 0644)
	}
	fmt.Printf("vinstr: yields=%d go=%d locks=%d selects=%d mapranges=%d netseams=%d allocguards=%d files=%d skipped=%d typeerrors=%d\n",
		st.Yields, st.GoStmts, st.Locks, st.Selects, st.MapRanges, st.NetSeams, st.AllocGuards, st.Files, len(st.Skipped), st.TypeErrors)
}
