#!/bin/bash
# dev: run N cases of a property with the dev worker and summarise (usage: devrun.sh C15 0 60 [seed])
p=$1; from=${2:-0}; to=${3:-60}; seed=${4:-5}
cat > ${DEVDIR:-/var/tmp/dev}/job3.json <<EOJ
{"property":"$p","tier":"quick","seed":$seed,"mode":"cases","from":$from,"to":$to,"out":"${DEVDIR:-/var/tmp/dev}/out3.json","shrink_ms":4000,"nshards":${NSH:-0}}
EOJ
VERIF_JOB=${DEVDIR:-/var/tmp/dev}/job3.json GOMAXPROCS=1 ${DEVDIR:-/var/tmp/dev}/worker-${PROFILE:-client}.test -test.run TestWorker -test.timeout 0 2>&1 | grep -v '^PASS\|"level"' | tail -25
python3 - <<'EOP'
import json
import os
D=os.environ.get('DEVDIR','/var/tmp/dev')
o=json.load(open(D+'/out3.json'))
print({k:o[k] for k in ['cases','runs','steps','determinism_failures','errors','wall_s']})
print(json.dumps(o['violation_counts'],indent=1))
for f in (o['found'] or []):
    print('----',f['violation']['class'], f['replay']['config'], f['replay']['spec'].get('params'))
    print(f['violation']['message'][:900])
    json.dump(f['replay'],open(D+'/found-'+f['violation']['class'].replace('/','_').replace(':','_')[:60]+'.json','w'))
EOP
